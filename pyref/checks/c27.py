"""C27 checker: logged labels vs pyref.labels."""
import glob, json, os, sys
from .. import labels as L
from ..recpy import Recorder

def bijective26(n, upper):
    """the pinned tree's (non-conforming) numbering: A..Z, AA, AB, ... (spreadsheet columns)"""
    s = ""
    while n > 0:
        s = chr((65 if upper else 97) + (n - 1) % 26) + s
        n = (n - 1) // 26
    return s


def main(out, seed, tier):
    rec = Recorder("py")
    e = L.selftest()
    if e:
        rec.inconc("labels selftest: %r" % e); rec.write(out); return
    for fn in sorted(glob.glob(os.path.join(out, "c27-*.jsonl"))):
        for line in open(fn):
            d = json.loads(line)
            if d["kind"] == "exhaustive":
                st = d["style"]
                bad = []
                for i, got in enumerate(d["labels"]):
                    want = L.fmt(st, i + 1)
                    rec.case("exh|%s|%d" % (st, i), nontrivial=(i >= 26 or st == "D"))
                    if got != want:
                        bad.append((i + 1, got, want))
                if st in "Aa":
                    known = [b for b in bad if b[1] == bijective26(b[0], st == "A")]
                    other = [b for b in bad if b[1] != bijective26(b[0], st == "A")]
                    groups = [("letters_beyond_26_are_bijective_base26_not_repeated", known), ("wrong_label", other)]
                else:
                    groups = [("wrong_label", bad)]
                for kind, bad in groups:
                    if not bad:
                        continue
                    n, got, want = bad[0]
                    rec.violation("C27|style_%s|%s" % (st, kind),
                                  "style /%s: %d of the first %d numbers differ; first: number %d -> %r, §12.4.2 says %r"
                                  % (st, len(bad), d["n"], n, got, want), {"style": st, "number": n, "got": got, "want": want})
            else:
                # ---- the written form: an independent reader of the /Nums entries must compute the same labels
                w = d.get("written")
                if isinstance(w, list) and all(isinstance(x, list) for x in w):
                    wr = [{"page": x[0], "style": (x[1] if x[1] in ("D", "R", "r", "A", "a") else "-"), "prefix": x[2], "start": (x[3] if x[3] is not None else 1)} for x in w]
                    rec.count("written_trees_read_back")
                    for i, _ in d["got"]:
                        try:
                            a, b = L.label(d["ranges"], i), L.label(wr, i)
                        except Exception:
                            continue
                        if a != b:
                            rec.violation("C27|written_page_labels_read_differently_by_independent_reader",
                                          "page index %d: authored ranges give %r, the written /Nums give %r" % (i, a, b), {"ranges": d["ranges"], "written": w, "index": i})
                            break
                elif w is not None:
                    rec.violation("C27|written_page_labels_malformed", str(w)[:300], {"ranges": d["ranges"]})
                for i, got in d["got"]:
                    want = L.label(d["ranges"], i)
                    by = {}
                    for r in d["ranges"]:
                        by[r["page"]] = r
                    gov = None
                    for p in sorted(by):
                        if p <= i:
                            gov = by[p]
                    num = (gov["start"] + (i - gov["page"])) if gov else 0
                    rec.case("tree|%d|%d" % (d["case"], i), nontrivial=(gov is not None and num > 26))
                    if isinstance(got, dict):
                        if gov and gov["style"] != "-" and num > 0xFFFFFFFF and "add with overflow" in got["msg"]:
                            rec.violation("C27|panic|start_plus_offset_overflows_u32",
                                          "get_label panics (%s): start %d + offset %d" % (got["msg"], gov["start"], i - gov["page"]),
                                          {"ranges": d["ranges"], "index": i})
                        else:
                            rec.violation("C27|panic|%s" % got["panic"], got["msg"], {"ranges": d["ranges"], "index": i})
                        continue
                    if got == want:
                        continue
                    st = gov["style"] if gov else "?"
                    pre = gov["prefix"] or ""
                    if st in "Aa" and num > 26 and got == pre + bijective26(num, st == "A"):
                        sig = "C27|style_%s|letters_beyond_26_are_bijective_base26_not_repeated" % st
                    elif num > 0xFFFFFFFF:
                        sig = "C27|start_plus_offset_overflows_u32"
                    else:
                        sig = "C27|tree|wrong_label|style_%s" % st
                    rec.violation(sig, "index %d of ranges %r -> %r, reference %r" % (i, d["ranges"], got, (want or "")[:60]),
                                  {"ranges": d["ranges"], "index": i, "got": got, "want": want})
                if d["case"] < 2:
                    rec.sample({"ranges": d["ranges"], "got": d["got"][:6]})
    rec.write(out)

if __name__ == "__main__":
    main(sys.argv[1], int(sys.argv[2]), sys.argv[3])
