"""Helpers shared by C05/C06: classify how a library-read object differs from the plaintext."""
from .. import pdf, crypto


def strings_of(c, path=""):
    """yield (path, hex) for every string in a canonical object"""
    if isinstance(c, dict):
        if "s" in c and len(c) == 1:
            yield path, c["s"]
        elif "d" in c:
            for k, v in c["d"].items():
                yield from strings_of(v, path + "/" + bytes.fromhex(k).decode("latin-1"))
        elif "st" in c:
            for k, v in c["st"].items():
                yield from strings_of(v, path + "/" + bytes.fromhex(k).decode("latin-1"))
    elif isinstance(c, list):
        for i, v in enumerate(c):
            yield from strings_of(v, path + "[%d]" % i)


def strip_len(c):
    if isinstance(c, dict) and "st" in c:
        c = dict(c)
        c["st"] = {k: v for k, v in c["st"].items() if k != b"Length".hex()}
        for x in ("dec_len", "dec_sha", "dec_err"):
            c.pop(x, None)
    return c


def classify(got, want, raw, num, decryptor):
    """got: library canonical object (after unlock); want: plaintext canonical; raw: canonical of the
    object as stored (ciphertext). Returns a short class name describing the difference, or None."""
    got, want = strip_len(got), strip_len(want)
    if got == want:
        return None
    if isinstance(got, dict) and "err" in got:
        e = got["err"]
        if "AES" in e or "ecrypt" in e:
            return "decryption_error"
        return "unreadable"
    if isinstance(want, dict) and "st" in want and isinstance(got, dict) and "st" in got:
        data_ok = got.get("sha") == want.get("sha")
        dict_ok = got["st"] == want["st"]
        rawc = strip_len(raw) if raw is not None else None
        if not data_ok:
            if rawc is not None and got.get("sha") == rawc.get("sha"):
                return "stream_data_returned_as_stored_ciphertext"
            return "stream_data_differs"
        if not dict_ok:
            gs, rs = dict(strings_of({"st": got["st"]})), dict(strings_of({"st": rawc["st"]})) if rawc else {}
            ws = dict(strings_of({"st": want["st"]}))
            if all(gs.get(k) == rs.get(k) for k in ws if gs.get(k) != ws.get(k)):
                return "stream_dict_strings_left_as_ciphertext"
            return "stream_dict_differs"
    gs, ws = dict(strings_of(got)), dict(strings_of(want))
    if set(gs) == set(ws):
        diff = [k for k in ws if gs[k] != ws[k]]
        rs = dict(strings_of(raw)) if raw is not None else {}
        if diff and all(gs[k] == rs.get(k) for k in diff):
            return "strings_left_as_stored"
        if diff and decryptor is not None and decryptor.str_method == "RC4":
            k0 = crypto.alg1_object_key(decryptor.key, num, 0, False)
            if all(bytes.fromhex(gs[k]) == crypto.rc4(k0, bytes.fromhex(ws[k])) for k in diff):
                return "strings_decrypted_once_too_often"
    return "differs_from_plaintext"
