#!/usr/bin/env python3
"""Maintainer tool (never run by a check): append the violations recorded in
replays/<ID>/*.json as `known` entries of known_findings.jsonl, after they have
been confirmed by hand as genuine defects of the pinned tree.

usage: tools/accept_findings.py <ID> [sig-regex]
"""
import json, os, re, sys, glob
ROOT = os.path.dirname(os.path.dirname(os.path.abspath(__file__)))
pid = sys.argv[1]
rx = re.compile(sys.argv[2]) if len(sys.argv) > 2 else None
kp = os.path.join(ROOT, "known_findings.jsonl")
have = set()
if os.path.exists(kp):
    for l in open(kp):
        l = l.strip()
        if l.startswith("{"):
            e = json.loads(l)
            have.add((e["property"], e["signature"]))
kdir = os.path.join(ROOT, "replays", "known", pid)
n = 0
with open(kp, "a") as f:
    for p in sorted(glob.glob(os.path.join(ROOT, "replays", pid, "*.json"))):
        w = json.load(open(p))
        sig = w["signature"]
        if rx and not rx.search(sig):
            continue
        if (pid, sig) in have:
            continue
        os.makedirs(kdir, exist_ok=True)
        wp = os.path.join(kdir, os.path.basename(p))
        json.dump(w, open(wp, "w"), indent=1)
        f.write(json.dumps({"status": "known", "property": pid, "signature": sig, "what": w["detail"][:300],
                            "witness": os.path.relpath(wp, ROOT)}) + "\n")
        os.remove(p)
        n += 1
print("accepted", n)
