pub mod enc;
pub mod docgen;
pub mod rawpdf;
