"""C10 — text given through the API reads back unchanged (Info entries, annotation /Contents, outline titles)."""
import glob, json, os
from multiprocessing import Pool
from .common import args, load_obs
from .docchecks import load_doc_cases, cfgclass
from .. import pdf
from ..pdf import Name, String, Ref, Stream, PdfError
from ..recpy import Recorder

INFO_KEYS = {"title": b"Title", "author": b"Author", "subject": b"Subject", "keywords": b"Keywords", "creator": b"Creator", "producer": b"Producer"}


def how_encoded(raw, text):
    if raw == text.encode("utf-8") and any(ord(c) > 127 for c in text):
        return "raw_utf8_without_bom"
    if raw[:2] == b"\xfe\xff":
        return "utf16be_but_wrong"
    return "other"


def outline_titles(doc):
    """document-order list of (title bytes, depth)"""
    out = []
    root = doc.resolve(doc.root().get(b"Outlines"))
    if not isinstance(root, dict):
        return out
    seen = set()

    def walk(ref, depth):
        while isinstance(ref, Ref) and ref.num not in seen and depth < 50:
            seen.add(ref.num)
            it = doc.resolve(ref)
            if not isinstance(it, dict):
                return
            t = doc.resolve(it.get(b"Title"))
            out.append((t.v if isinstance(t, String) else None, depth))
            if b"First" in it:
                walk(it[b"First"], depth + 1)
            ref = it.get(b"Next")

    walk(root.get(b"First"), 0)
    return out


def flat_outline(items, depth=0):
    for it in items:
        yield it["title"], it["cls"], depth
        yield from flat_outline(it["kids"], depth + 1)


def analyse(job):
    d, c, obs = job
    out = []
    n_checked = 0
    wit = {"case": c["id"], "config": c["config"], "program_file": c["program_file"]}
    model = c["model"]
    data = open(os.path.join(d, c["file"]), "rb").read()
    try:
        doc = pdf.Document(data)
        info = doc.info() or {}
        for k, spec in model["meta"].items():
            raw = doc.resolve(info.get(INFO_KEYS[k]))
            n_checked += 1
            if not isinstance(raw, String):
                out.append(("C10|info.%s|ref|%s|missing" % (k, spec["cls"]), "%s: /%s absent" % (c["id"], INFO_KEYS[k].decode()), dict(wit, text=spec["text"])))
                continue
            got = pdf.text_string(raw.v)
            if got != spec["text"]:
                out.append(("C10|info|ref|%s|%s" % (spec["cls"], how_encoded(raw.v, spec["text"])),
                            "%s: /%s reads %r, authored %r (bytes %s)" % (c["id"], INFO_KEYS[k].decode(), got[:60], spec["text"][:60], raw.v[:40].hex()), dict(wit, text=spec["text"])))
        pages = doc.pages()
        for (num, pg, inh), mp in zip(pages, model["pages"]):
            annots = doc.resolve(pg.get(b"Annots")) or []
            for a, ma in zip(annots, mp["annots"]):
                ad = doc.resolve(a)
                raw = doc.resolve(ad.get(b"Contents")) if isinstance(ad, dict) else None
                n_checked += 1
                if not isinstance(raw, String) or pdf.text_string(raw.v) != ma["contents"]:
                    out.append(("C10|annotation.Contents|ref|%s|%s" % (ma["cls"], how_encoded(raw.v, ma["contents"]) if isinstance(raw, String) else "missing"),
                                "%s: /Contents reads %r, authored %r" % (c["id"], pdf.text_string(raw.v)[:60] if isinstance(raw, String) else None, ma["contents"][:60]), dict(wit, text=ma["contents"])))
        want = list(flat_outline(model["outline"]))
        got = outline_titles(doc)
        if want:
            if len(got) != len(want):
                out.append(("C10|outline.Title|ref|count", "%s: %d outline items, authored %d" % (c["id"], len(got), len(want)), wit))
            for (raw, dep), (t, cls, d2) in zip(got, want):
                n_checked += 1
                if raw is None or pdf.text_string(raw) != t:
                    out.append(("C10|outline.Title|ref|%s|%s" % (cls, how_encoded(raw, t) if raw is not None else "missing"),
                                "%s: outline title reads %r, authored %r" % (c["id"], pdf.text_string(raw)[:60] if raw else None, t[:60]), dict(wit, text=t)))
    except PdfError as e:
        out.append(("C10|independent_reader_rejects_file|%s" % cfgclass(c), "%s: %s" % (c["id"], e), wit))
    for preset, o in obs.items():
        if o.get("open_err") or "panic" in o:
            continue
        m = o.get("meta")
        if not isinstance(m, dict) or "err" in m:
            out.append(("C10|info|lib|metadata_unreadable", "%s: %r" % (c["id"], m), wit))
            continue
        for k, spec in model["meta"].items():
            n_checked += 1
            if m.get(k) != spec["text"]:
                out.append(("C10|info|lib|%s|differs" % spec["cls"], "%s preset %s: metadata().%s = %r, authored %r" % (c["id"], preset, k, (m.get(k) or "")[:60], spec["text"][:60]), dict(wit, text=spec["text"])))
    return out, n_checked


def main():
    out, seed, tier, kv = args()
    rec = Recorder("py")
    d = os.path.join(out, "cases")
    cases = [c for c in load_doc_cases(d) if "write_error" not in c]
    obs = load_obs(out)
    jobs = [(d, c, obs.get(c["id"], {})) for c in cases]
    with Pool(min(16, os.cpu_count() or 4)) as pool:
        for c, (viol, n) in zip(cases, pool.imap(analyse, jobs, chunksize=8)):
            classes = {v["cls"] for v in c["model"]["meta"].values()}
            rec.case(c["id"], nontrivial=bool(classes - {"ascii"}))
            rec.count("strings_checked", n)
            for cl in classes:
                rec.set_add("text_classes", cl)
            for sig, detail, wit in viol:
                rec.violation(sig, detail, wit)
            if len(rec.samples) < 3:
                rec.sample({"case": c["id"], "meta": c["model"]["meta"]})
    rec.write(out)


if __name__ == "__main__":
    main()
