pub mod enc;
pub mod docgen;
pub mod rawpdf;
pub mod pnggen;
