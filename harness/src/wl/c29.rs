//! C29 — object cache vs. reference LRU: exhaustive sequential enumeration and
//! concurrent histories checked for linearizability.
use super::c29_core::*;
use crate::{Ctx, Recorder};
use serde_json::json;

pub fn run(ctx: &Ctx, rec: &mut Recorder) -> Result<(), String> {
    // ---- sequential, exhaustive up to length L
    let max_len = ctx.qt(7usize, 9usize);
    let mut st = SeqStats::default();
    for len in 0..=max_len {
        let mine = |i: u64| ctx.mine(i);
        enumerate(len, &mine, &mut st);
    }
    rec.eval_only(st.sequences);
    rec.count_n("sequential_sequences", st.sequences);
    rec.count_n("sequential_steps_compared", st.steps);
    rec.count_n("sequential_sequences_with_eviction", st.with_eviction);
    // distinct non-trivial = sequences that force at least one eviction (each
    // (codes, cap) is enumerated once, so the count is exact)
    for i in 0..st.with_eviction {
        rec.hashes.insert(crate::rng::fnv64(format!("seq-ev-{}-{}", ctx.shard, i).as_bytes()));
    }
    if let Some((sig, d)) = st.violation.take() {
        rec.violation(sig, d.clone(), json!({"detail": d}));
    }
    rec.extra.insert("sequential_max_len".into(), json!(max_len));
    rec.extra.insert("exhaustive_sequential".into(), json!(true));

    // ---- concurrent histories
    let nhist = ctx.qt(200_000u64, 5_000_000u64) / ctx.nshards as u64;
    let mut lcg = Lcg(ctx.seed.wrapping_mul(0x9E3779B97F4A7C15) ^ (ctx.shard as u64) << 32 | 1);
    let mut overlapped = 0u64;
    let mut max_nodes = 0u64;
    for hno in 0..nhist {
        let plan = gen_plan(&mut lcg, 400);
        let (h, max_size) = run_plan(&plan, false);
        rec.evaluations += 1;
        let ov = has_overlap(&h);
        if ov {
            overlapped += 1;
            rec.hashes.insert(crate::rng::fnv64(format!("{:?}", h.iter().map(|e| (e.thread, e.op, e.ret)).collect::<Vec<_>>()).as_bytes()));
            if rec.sets.get("interleavings").map(|s| s.len()).unwrap_or(0) < 50_000 {
                rec.set_add("interleavings", interleaving_sig(&h));
            }
        }
        if max_size > plan.cap {
            rec.violation(
                "C29|concurrent|size_exceeds_capacity",
                format!("stats().size={max_size} > capacity {} observed", plan.cap),
                json!({"plan": format!("{:?}", plan.threads), "cap": plan.cap}),
            );
        }
        let (ok, nodes) = linearizable(&h, plan.cap);
        max_nodes = max_nodes.max(nodes);
        if !ok {
            rec.violation(
                "C29|concurrent|history_not_linearizable",
                format!("no linearization against the reference LRU (cap {}): {:?}", plan.cap, h),
                json!({"cap": plan.cap, "history": format!("{:?}", h)}),
            );
        }
        if hno < 2 && ctx.shard == 0 {
            rec.sample(json!({"kind": "concurrent history", "cap": plan.cap,
                "events": h.iter().map(|e| format!("t{} {:?} -> {:?} [{}..{}]", e.thread, e.op, e.ret, e.call, e.retn)).collect::<Vec<_>>()}));
        }
    }
    rec.count_n("concurrent_histories", nhist);
    rec.count_n("concurrent_histories_with_real_overlap", overlapped);
    rec.extra.insert("max_linearization_nodes".into(), json!(max_nodes));
    if ctx.shard == 0 {
        rec.sample(json!({"kind": "sequential", "example": "cap=2 [Put(0,100), Put(1,101), Get(0), Put(2,103)] then probes Get(0..2): model and cache must agree at every step"}));
    }
    Ok(())
}
