//! C07 — every supported filter decodes what a reference encoder encoded.
//! C08 shares the case generator (see c08.rs).
use crate::gen::enc::{self, PredParams};
use crate::{Ctx, Recorder, Rng};
use oxidize_pdf::parser::objects::{PdfArray, PdfDictionary, PdfName, PdfObject, PdfStream};
use oxidize_pdf::parser::ParseOptions;
use serde_json::json;

#[derive(Clone, Debug, PartialEq)]
pub enum Filt {
    Flate(u32),
    Lzw { early: bool, own: bool, clears: Vec<usize> },
    A85 { ws: bool, z: bool },
    Hex { ws: bool, odd: bool },
    Rl,
}
impl Filt {
    pub fn name(&self) -> &'static str {
        match self {
            Filt::Flate(_) => "FlateDecode",
            Filt::Lzw { .. } => "LZWDecode",
            Filt::A85 { .. } => "ASCII85Decode",
            Filt::Hex { .. } => "ASCIIHexDecode",
            Filt::Rl => "RunLengthDecode",
        }
    }
}

#[derive(Clone, Debug)]
pub struct Case {
    pub filters: Vec<Filt>,
    /// predictor attached to filter index `.0`
    pub pred: Option<(usize, PredParams)>,
    pub raw: Vec<u8>,
    pub encoded: Vec<u8>,
    /// sizes of every buffer the decoder produces on the way (filter outputs,
    /// i.e. predictor inputs, and predictor outputs), in decode order
    pub stage_sizes: Vec<usize>,
    pub dict: PdfDictionary,
    pub lzw_crosses: bool,
}

fn name(s: &str) -> PdfObject {
    PdfObject::Name(PdfName(s.to_string()))
}

pub fn gen_case(r: &mut Rng, max_len: usize) -> Case {
    let nf = match r.below(10) {
        0..=4 => 1,
        5..=7 => 2,
        _ => 3,
    };
    let mut filters = Vec::new();
    for _ in 0..nf {
        filters.push(match r.below(9) {
            0 | 1 => Filt::Flate(r.below(10) as u32),
            2 | 3 | 4 => Filt::Lzw { early: r.chance(2, 3), own: r.bool(), clears: vec![] },
            5 => Filt::A85 { ws: r.bool(), z: r.chance(3, 4) },
            6 => Filt::Hex { ws: r.bool(), odd: r.chance(1, 3) },
            _ => Filt::Rl,
        });
    }
    // predictor on a Flate/LZW filter
    // (only the last filter of the chain: the predictor's input must be whole
    // rows, which only the original data guarantees)
    let cand: Vec<usize> = filters.iter().enumerate().filter(|(i, f)| *i + 1 == nf && matches!(f, Filt::Flate(_) | Filt::Lzw { .. })).map(|(i, _)| i).collect();
    let pred = if !cand.is_empty() && r.chance(1, 2) {
        let at = *r.pick(&cand);
        let predictor = *r.pick(&[2u32, 10, 11, 12, 13, 14, 15, 15]);
        let bpc = *r.pick(&[1usize, 2, 4, 8, 8, 8, 16]);
        let colors = r.urange(1, 4);
        let columns = if r.chance(1, 3) { r.urange(1, 4) } else { r.urange(1, 64) };
        Some((at, PredParams { predictor, colors, bpc, columns }))
    } else {
        None
    };
    let mut len = match r.below(12) {
        0 => 0,
        1 => r.urange(1, 8),
        2..=7 => r.urange(1, 600),
        8 | 9 => r.urange(600, max_len.min(6000)),
        _ => r.urange(1, max_len),
    };
    if let Some((_, p)) = &pred {
        let rb = p.row_bytes();
        let rows = if len == 0 { 0 } else { (len / rb).clamp(1, 200) };
        len = rows * rb;
    }
    let raw = enc::sample_data(r, len);
    build_case(r, filters, pred, raw)
}

pub fn build_case(r: &mut Rng, mut filters: Vec<Filt>, pred: Option<(usize, PredParams)>, raw: Vec<u8>) -> Case {
    // encode in reverse decode order; record buffer sizes
    let mut sizes_rev: Vec<usize> = vec![raw.len()];
    let mut cur = raw.clone();
    let mut lzw_crosses = false;
    for i in (0..filters.len()).rev() {
        if let Some((at, p)) = &pred {
            if *at == i {
                cur = if p.predictor == 2 { enc::tiff_predict(&cur, p) } else { enc::png_predict(&cur, p, r) };
                sizes_rev.push(cur.len());
            }
        }
        let f = filters[i].clone();
        cur = match f {
            Filt::Flate(l) => enc::flate(&cur, l),
            Filt::Lzw { early, own, .. } => {
                if cur.len() > 400 {
                    lzw_crosses = true;
                }
                if own {
                    let mut clears = Vec::new();
                    if !cur.is_empty() && r.chance(1, 3) {
                        for _ in 0..r.urange(1, 3) {
                            clears.push(r.usize_below(cur.len()));
                        }
                    }
                    let e = enc::lzw_own(&cur, early, &clears);
                    filters[i] = Filt::Lzw { early, own, clears };
                    e
                } else {
                    enc::lzw_weezl(&cur, early)
                }
            }
            Filt::A85 { ws, z } => enc::ascii85(&cur, r, ws, z),
            Filt::Hex { ws, odd } => enc::ascii_hex(&cur, r, ws, odd),
            Filt::Rl => enc::run_length(&cur, r),
        };
        if i > 0 {
            sizes_rev.push(cur.len());
        }
    }
    sizes_rev.reverse();
    // dictionary
    let mut dict = PdfDictionary::new();
    if filters.len() == 1 && r.bool() {
        dict.insert("Filter".into(), name(filters[0].name()));
    } else {
        dict.insert("Filter".into(), PdfObject::Array(PdfArray(filters.iter().map(|f| name(f.name())).collect())));
    }
    let mut parms: Vec<PdfObject> = Vec::new();
    let mut any = false;
    for (i, f) in filters.iter().enumerate() {
        let mut d = PdfDictionary::new();
        if let Filt::Lzw { early, .. } = f {
            if !*early {
                d.insert("EarlyChange".into(), PdfObject::Integer(0));
            } else if r.chance(1, 3) {
                d.insert("EarlyChange".into(), PdfObject::Integer(1));
            }
        }
        if let Some((at, p)) = &pred {
            if *at == i {
                d.insert("Predictor".into(), PdfObject::Integer(p.predictor as i64));
                d.insert("Colors".into(), PdfObject::Integer(p.colors as i64));
                d.insert("BitsPerComponent".into(), PdfObject::Integer(p.bpc as i64));
                d.insert("Columns".into(), PdfObject::Integer(p.columns as i64));
            }
        }
        if d.0.is_empty() {
            parms.push(PdfObject::Null);
        } else {
            any = true;
            parms.push(PdfObject::Dictionary(d));
        }
    }
    if any {
        if filters.len() == 1 && !matches!(dict.get("Filter"), Some(PdfObject::Array(_))) {
            dict.insert("DecodeParms".into(), parms.remove(0));
        } else if filters.len() == 1 && r.bool() {
            dict.insert("DecodeParms".into(), parms.remove(0));
        } else {
            dict.insert("DecodeParms".into(), PdfObject::Array(PdfArray(parms)));
        }
    }
    dict.insert("Length".into(), PdfObject::Integer(cur.len() as i64));
    Case { filters, pred, raw, encoded: cur, stage_sizes: sizes_rev, dict, lzw_crosses }
}

pub fn describe(c: &Case) -> serde_json::Value {
    json!({
        "filters": c.filters.iter().map(|f| format!("{f:?}")).collect::<Vec<_>>(),
        "predictor": c.pred.as_ref().map(|(at, p)| json!({"on_filter": at, "predictor": p.predictor, "colors": p.colors, "bpc": p.bpc, "columns": p.columns})),
        "raw_len": c.raw.len(),
        "encoded_hex": crate::rec::hex(&c.encoded[..c.encoded.len().min(4096)]),
        "raw_hex": crate::rec::hex(&c.raw[..c.raw.len().min(4096)]),
        "stage_sizes": c.stage_sizes,
    })
}

/// Harness self-test: own LZW encoder and weezl agree (below the table-full
/// boundary, where both are deterministic), and A85/Hex/RL round-trip through
/// trivially correct local decoders is implied by the library agreeing on
/// millions of cases; here we only pin the LZW encoder.
pub fn selftest(r: &mut Rng) -> Result<(), String> {
    for i in 0..200 {
        let len = r.urange(0, 3000);
        let d = enc::sample_data(r, len);
        for early in [true, false] {
            let a = enc::lzw_own(&d, early, &[]);
            let b = enc::lzw_weezl(&d, early);
            // both must decode to d with weezl's decoder
            let mut dec = if early {
                weezl::decode::Decoder::with_tiff_size_switch(weezl::BitOrder::Msb, 8)
            } else {
                weezl::decode::Decoder::new(weezl::BitOrder::Msb, 8)
            };
            let da = dec.decode(&a).map_err(|e| format!("weezl cannot decode own LZW (early={early}, case {i}): {e:?}"))?;
            if da != d {
                return Err(format!("own LZW encoder wrong (early={early}, len {len})"));
            }
            let mut dec2 = if early {
                weezl::decode::Decoder::with_tiff_size_switch(weezl::BitOrder::Msb, 8)
            } else {
                weezl::decode::Decoder::new(weezl::BitOrder::Msb, 8)
            };
            if dec2.decode(&b).map_err(|e| format!("{e:?}"))? != d {
                return Err("weezl round trip failed".into());
            }
        }
    }
    Ok(())
}

pub fn run(ctx: &Ctx, rec: &mut Recorder) -> Result<(), String> {
    let mut r0 = Rng::derive(ctx.seed, 7, 0xFFFF);
    selftest(&mut r0)?;
    let opts = ParseOptions::default();
    let ncases = ctx.qt(60_000u64, 1_200_000u64);
    let max_len = ctx.qt(12_000usize, 40_000usize);
    for cno in 0..ncases {
        if !ctx.mine(cno) {
            continue;
        }
        let mut r = Rng::derive(ctx.seed, 7, cno);
        let c = gen_case(&mut r, max_len);
        let nontrivial = c.filters.len() >= 2 || c.pred.is_some() || c.lzw_crosses;
        let mut key = format!("{:?}|{:?}|", c.filters, c.pred).into_bytes();
        key.extend_from_slice(&crate::rng::fnv64(&c.raw).to_le_bytes());
        rec.case(&key, nontrivial);
        for f in &c.filters {
            let (p, bpc, col) = match &c.pred {
                Some((_, p)) => (p.predictor, p.bpc, p.colors),
                None => (1, 0, 0),
            };
            rec.set_add("matrix_filter_predictor_bpc_colors", format!("{}|{}|{}|{}", f.name(), p, bpc, col));
        }
        if c.filters.len() > 1 {
            rec.set_add("chains", c.filters.iter().map(|f| f.name()).collect::<Vec<_>>().join(">"));
        }
        let stream = PdfStream { dict: c.dict.clone(), data: c.encoded.clone() };
        let got = crate::mon::guarded(|| stream.decode(&opts));
        let chain = c.filters.iter().map(|f| f.name()).collect::<Vec<_>>().join(">");
        let pclass = match &c.pred {
            None => "nopred".to_string(),
            Some((_, p)) if p.predictor == 2 => format!("tiff2_bpc{}", p.bpc),
            Some((_, p)) => format!("png_bpc{}_colors{}", p.bpc, p.colors),
        };
        match got {
            Err(p) => rec.violation(format!("C07|panic|{}", p.site()), format!("{} on {chain} {pclass}", p.message), describe(&c)),
            Ok(Err(e)) => {
                let last = c.filters.last().map(|f| f.name()).unwrap_or("");
                let _ = last;
                rec.violation(
                    format!("C07|decode_error|{}|{}", single_or_chain(&c), pclass_coarse(&c)),
                    format!("decode() of reference-encoded data failed: {e} (chain {chain}, {pclass})"),
                    describe(&c),
                )
            }
            Ok(Ok(out)) => {
                if out != c.raw {
                    // the pinned tree's known gap: predictor 2 data handed back undecoded
                    if let Some((_, p)) = &c.pred {
                        if p.predictor == 2 && out == enc::tiff_predict(&c.raw, p) {
                            rec.violation(
                                "C07|tiff_predictor2|data_returned_without_undoing_the_predictor",
                                format!("Predictor 2 (TIFF) is not undone: chain {chain}, bpc {} colors {} columns {}", p.bpc, p.colors, p.columns),
                                describe(&c),
                            );
                            continue;
                        }
                    }
                    rec.violation(
                        format!("C07|wrong_bytes|{}|{}", single_or_chain(&c), pclass_coarse(&c)),
                        format!("decoded {} bytes, expected {} (chain {chain}, {pclass}); first difference at {:?}", out.len(), c.raw.len(),
                            out.iter().zip(c.raw.iter()).position(|(a, b)| a != b)),
                        describe(&c),
                    );
                }
            }
        }
        if cno < 3 {
            rec.sample(describe(&c));
        }
    }
    // CCITT G4 via the fax crate
    let nfax = ctx.qt(4_000u64, 60_000u64);
    for cno in 0..nfax {
        if !ctx.mine(cno) {
            continue;
        }
        let mut r = Rng::derive(ctx.seed, 77, cno);
        let w = if r.chance(1, 4) { r.urange(1, 16) } else { r.urange(1, 200) };
        let h = r.urange(1, 24);
        let rb = w.div_ceil(8);
        let mut bm = vec![0u8; rb * h];
        let style = r.below(4);
        for y in 0..h {
            let mut x = 0;
            let mut white = r.bool();
            while x < w {
                let run = match style {
                    0 => 1,
                    1 => r.urange(1, 8),
                    2 => r.urange(1, 80),
                    _ => r.urange(1, w),
                };
                for xx in x..(x + run).min(w) {
                    if white {
                        bm[y * rb + xx / 8] |= 0x80 >> (xx % 8);
                    }
                }
                x += run;
                white = !white;
            }
            if y > 0 && r.chance(1, 3) {
                let (a, b) = bm.split_at_mut(y * rb);
                b[..rb].copy_from_slice(&a[(y - 1) * rb..y * rb]);
            }
        }
        // padding bits of each row: white (1), as decoders emit for BlackIs1=false? keep them 0 and mask on compare
        let data = enc::ccitt_g4(&bm, w, h);
        // the reference decoder of the same third-party crate must read it back
        {
            let mut rows: Vec<Vec<bool>> = Vec::new();
            let ok = fax::decoder::decode_g4(data.iter().copied(), w as u16, Some(h as u16), |tr| {
                rows.push(fax::decoder::pels(tr, w as u16).map(|c| matches!(c, fax::Color::White)).collect());
            });
            let mut same = ok.is_some() && rows.len() == h;
            if same {
                for y in 0..h {
                    for x in 0..w {
                        if rows[y].get(x).copied() != Some(bm[y * rb + x / 8] & (0x80 >> (x % 8)) != 0) {
                            same = false;
                        }
                    }
                }
            }
            if !same {
                rec.inconclusive(format!("fax crate does not round-trip its own G4 encoding for {w}x{h}"));
                continue;
            }
        }
        let mut d = PdfDictionary::new();
        d.insert("Filter".into(), name("CCITTFaxDecode"));
        let mut p = PdfDictionary::new();
        p.insert("K".into(), PdfObject::Integer(-1));
        p.insert("Columns".into(), PdfObject::Integer(w as i64));
        p.insert("Rows".into(), PdfObject::Integer(h as i64));
        let black_is_1 = r.chance(1, 3);
        if black_is_1 {
            p.insert("BlackIs1".into(), PdfObject::Boolean(true));
        }
        d.insert("DecodeParms".into(), PdfObject::Dictionary(p));
        let stream = PdfStream { dict: d, data: data.clone() };
        let mut key = format!("ccitt|{w}|{h}|{black_is_1}|").into_bytes();
        key.extend_from_slice(&bm);
        rec.case(&key, true);
        rec.set_add("matrix_filter_predictor_bpc_colors", "CCITTFaxDecode|1|0|0".to_string());
        let witness = json!({"width": w, "height": h, "black_is_1": black_is_1, "bitmap_hex": crate::rec::hex(&bm), "encoded_hex": crate::rec::hex(&data)});
        match crate::mon::guarded(|| stream.decode(&opts)) {
            Err(pn) => rec.violation(format!("C07|panic|{}", pn.site()), format!("{} on CCITT G4 {w}x{h}", pn.message), witness),
            Ok(Err(e)) => rec.violation("C07|decode_error|CCITTFaxDecode_G4", format!("CCITT G4 {w}x{h}: {e}"), witness),
            Ok(Ok(out)) => {
                // compare pixel by pixel (padding bits are not specified)
                let mut bad = out.len() != rb * h;
                if !bad {
                    'o: for y in 0..h {
                        for x in 0..w {
                            let want_white = bm[y * rb + x / 8] & (0x80 >> (x % 8)) != 0;
                            let bit = out[y * rb + x / 8] & (0x80 >> (x % 8)) != 0;
                            let got_white = if black_is_1 { !bit } else { bit };
                            if got_white != want_white {
                                bad = true;
                                break 'o;
                            }
                        }
                    }
                }
                let passthrough = {
                    let mut e = data.clone();
                    e.resize(rb * h, 0);
                    e.truncate(rb * h);
                    out == e
                };
                if bad && passthrough {
                    rec.violation(
                        "C07|CCITTFaxDecode_G4|not_decoded_encoded_bytes_passed_through",
                        format!("CCITT G4 {w}x{h}: decode() returns the first {} encoded bytes unchanged instead of the bitmap", rb * h),
                        witness,
                    );
                } else if bad {
                    rec.violation(
                        format!("C07|wrong_bytes|CCITTFaxDecode_G4|{}", if black_is_1 { "BlackIs1" } else { "default" }),
                        format!("CCITT G4 {w}x{h}: decoded {} bytes (expected {}), pixels differ", out.len(), rb * h),
                        witness,
                    );
                }
            }
        }
    }
    Ok(())
}

pub fn single_or_chain(c: &Case) -> String {
    if c.filters.len() == 1 {
        match &c.filters[0] {
            Filt::Lzw { early, .. } => format!("LZWDecode_early{}", *early as u8),
            f => f.name().to_string(),
        }
    } else {
        format!("chain{}", c.filters.len())
    }
}
pub fn pclass_coarse(c: &Case) -> String {
    match &c.pred {
        None => "nopred".into(),
        Some((_, p)) if p.predictor == 2 => "tiff_predictor2".into(),
        Some((_, p)) => format!("png_predictor_bpc{}", p.bpc),
    }
}
