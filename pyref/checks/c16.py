"""C16 — page operations preserve page content and geometry. Sources and outputs are read with the
independent reader; every output page is matched to the source page the operation should have put
there and compared: content tokens, MediaBox (incl. origin), CropBox, /Rotate, the fonts and XObjects
its content uses."""
import hashlib, os
from multiprocessing import Pool
from .. import pdf
from ..pdf import Name, Ref, Stream, PdfError
from .common import args
from .docchecks import load_doc_cases
from ..recpy import Recorder


def nums(a):
    return [float(x) for x in a] if isinstance(a, list) and all(isinstance(x, (int, float)) for x in a) else None


def page_model(doc, page, inh):
    g = lambda k: doc.resolve(page.get(k, inh.get(k)))
    content = doc.page_content(page)
    ops = pdf.content_ops(content)
    res = g(b"Resources") or {}
    fonts = doc.resolve(res.get(b"Font")) or {}
    xobjs = doc.resolve(res.get(b"XObject")) or {}
    used_fonts, used_xo, word = {}, {}, None
    for op, operands in ops:
        if op == b"Tf" and operands and isinstance(operands[0], Name):
            fd = doc.resolve(fonts.get(operands[0].v))
            used_fonts[operands[0].v.decode("latin1")] = repr(fd.get(b"BaseFont")) if isinstance(fd, dict) else None
        if op == b"Do" and operands and isinstance(operands[0], Name):
            xo = doc.resolve(xobjs.get(operands[0].v))
            if isinstance(xo, Stream):
                try:
                    body = pdf.decode_stream(xo, doc.resolve)
                except Exception as e:
                    body = repr(e).encode()
                used_xo[operands[0].v.decode("latin1")] = [repr(xo.dict.get(b"Subtype")), hashlib.sha1(body).hexdigest()]
            else:
                used_xo[operands[0].v.decode("latin1")] = None
        if op == b"Tj" and word is None and operands:
            word = operands[0].v if hasattr(operands[0], "v") else None
    rot = g(b"Rotate")
    return {"word": word, "tokens": repr(ops), "media": nums(g(b"MediaBox")), "crop": nums(g(b"CropBox")) if g(b"CropBox") is not None else None,
            "rot": (rot % 360) if isinstance(rot, int) else 0, "fonts": used_fonts, "xobjects": used_xo}


def read_pages(path):
    doc = pdf.Document(open(path, "rb").read(), strict=True)
    return [page_model(doc, p, inh) for _, p, inh in doc.pages()]


def analyse(job):
    d, c = job
    out = []
    stats = {"pages": 0}
    op = c["op"]
    wit = {k: c[k] for k in ("case", "seed", "op", "params", "sources", "n")}
    try:
        srcs = [read_pages(os.path.join(d, s)) for s in c["sources"]]
    except Exception as e:
        return [("inconc", "source unreadable by the independent reader: %r" % (e,), None)], stats
    if c.get("expect") is None:
        # not a valid selection: the operation has to refuse
        if "error" not in c:
            out.append(("C16|%s|invalid_selection_accepted" % op, "params %r on a %d-page document returned Ok" % (c["params"], c["n"]), wit))
        return out, stats
    if "error" in c:
        out.append(("C16|%s|valid_request_failed" % op, c["error"][:300], wit))
        return out, stats
    if len(set(c["outputs"])) != len(c["outputs"]):
        # the operation returned the same path for two of the requested pieces: the later piece overwrote the earlier
        out.append(("C16|%s|two_requested_pieces_written_to_the_same_output_file" % op, "outputs %r for %r" % (c["outputs"], c["params"]), wit))
        return out, stats
    try:
        outs = [read_pages(os.path.join(d, o)) for o in c["outputs"]]
    except Exception as e:
        out.append(("C16|%s|output_unreadable_for_independent_reader" % op, repr(e)[:300], wit))
        return out, stats
    expect = c["expect"]
    if op == "split" and expect == []:
        expect = None  # conservation only
        flat = [p for f in outs for p in f]
        want = srcs[0]
        if [p["word"] for p in flat] != [p["word"] for p in want]:
            out.append(("C16|split|split_at_outputs_are_not_all_pages_once_in_order", "got %r" % ([p["word"] for p in flat],), wit))
            return out, stats
        expect = []
        k = 0
        for f in outs:
            expect.append([[0, k + i, 0] for i in range(len(f))])
            k += len(f)
    if len(outs) != len(expect):
        out.append(("C16|%s|wrong_number_of_output_files" % op, "%d files, expected %d" % (len(outs), len(expect)), wit))
        return out, stats
    for fi, (pages, exp) in enumerate(zip(outs, expect)):
        if len(pages) != len(exp):
            out.append(("C16|%s|wrong_page_count" % op, "file %d has %d pages, expected %d (%r)" % (fi, len(pages), len(exp), [p["word"] for p in pages]), wit))
            continue
        for pi, (got, (s, i, deg)) in enumerate(zip(pages, exp)):
            stats["pages"] += 1
            want = srcs[s][i]
            where = "file %d page %d (source %d page %d)" % (fi, pi, s, i)
            if got["word"] != want["word"]:
                out.append(("C16|%s|wrong_page_at_position" % op, "%s: found %r, expected %r" % (where, got["word"], want["word"]), wit)); break
            if got["tokens"] != want["tokens"]:
                out.append(("C16|%s|content_tokens_differ" % op, "%s: %s vs %s" % (where, got["tokens"][:200], want["tokens"][:200]), wit)); break
            if got["media"] != want["media"]:
                w, g = want["media"], got["media"]
                kind = "media_box_origin_lost" if w and g and (w[0] != 0 or w[1] != 0) and g[:2] == [0.0, 0.0] and abs((g[2] - g[0]) - (w[2] - w[0])) < 1e-6 and abs((g[3] - g[1]) - (w[3] - w[1])) < 1e-6 else "media_box_differs"
                out.append(("C16|%s|%s" % (op, kind), "%s: %r, source %r" % (where, g, w), wit)); break
            if got["crop"] != want["crop"]:
                kind = "crop_box_dropped" if got["crop"] is None else "crop_box_differs"
                out.append(("C16|%s|%s" % (op, kind), "%s: %r, source %r" % (where, got["crop"], want["crop"]), wit)); break
            if got["rot"] != (want["rot"] + deg) % 360:
                out.append(("C16|%s|rotation_differs" % op, "%s: /Rotate %r, expected (%d + %d) mod 360" % (where, got["rot"], want["rot"], deg), wit)); break
            if got["fonts"] != want["fonts"]:
                out.append(("C16|%s|fonts_used_by_content_differ" % op, "%s: %r, source %r" % (where, got["fonts"], want["fonts"]), wit)); break
            if got["xobjects"] != want["xobjects"]:
                out.append(("C16|%s|xobjects_used_by_content_differ" % op, "%s: %r, source %r" % (where, got["xobjects"], want["xobjects"]), wit)); break
    return out, stats


def main():
    out, seed, tier, kv = args()
    rec = Recorder("py")
    d = os.path.join(out, "cases")
    cases = load_doc_cases(d)
    with Pool(min(16, os.cpu_count() or 4)) as pool:
        for c, (viol, stats) in zip(cases, pool.imap(analyse, [(d, c) for c in cases], chunksize=8)):
            rec.case(c["id"], True)
            rec.count("output_pages_compared", stats["pages"])
            rec.count("cases.%s" % c["op"])
            if c.get("expect") is None:
                rec.count("invalid_selections_tried")
            for sig, detail, wit in viol:
                if sig == "inconc":
                    rec.inconc(detail)
                else:
                    rec.violation(sig, detail, wit)
    rec.write(out)


if __name__ == "__main__":
    main()
