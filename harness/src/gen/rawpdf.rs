//! A minimal PDF file builder that owes nothing to the library's writer: numbered
//! objects, uncompressed streams, a classic cross-reference table.
pub struct RawPdf {
    objs: Vec<Option<Vec<u8>>>,
}

impl RawPdf {
    pub fn new() -> Self {
        RawPdf { objs: Vec::new() }
    }
    /// reserve an object number to be filled later
    pub fn reserve(&mut self) -> u32 {
        self.objs.push(None);
        self.objs.len() as u32
    }
    pub fn set(&mut self, num: u32, body: Vec<u8>) {
        self.objs[num as usize - 1] = Some(body);
    }
    pub fn add(&mut self, body: impl Into<Vec<u8>>) -> u32 {
        self.objs.push(Some(body.into()));
        self.objs.len() as u32
    }
    pub fn add_stream(&mut self, dict_entries: &str, data: &[u8]) -> u32 {
        let b = Self::stream_body(dict_entries, data);
        self.add(b)
    }
    pub fn stream_body(dict_entries: &str, data: &[u8]) -> Vec<u8> {
        let mut b = format!("<< {dict_entries} /Length {} >>\nstream\n", data.len()).into_bytes();
        b.extend_from_slice(data);
        b.extend_from_slice(b"\nendstream");
        b
    }
    pub fn finish(&self, root: u32) -> Vec<u8> {
        let mut out = b"%PDF-1.7\n%\xE2\xE3\xCF\xD3\n".to_vec();
        let mut offs = Vec::new();
        for (i, o) in self.objs.iter().enumerate() {
            offs.push(out.len());
            out.extend_from_slice(format!("{} 0 obj\n", i + 1).as_bytes());
            out.extend_from_slice(o.as_deref().unwrap_or(b"null"));
            out.extend_from_slice(b"\nendobj\n");
        }
        let xref = out.len();
        out.extend_from_slice(format!("xref\n0 {}\n0000000000 65535 f \n", self.objs.len() + 1).as_bytes());
        for o in offs {
            out.extend_from_slice(format!("{o:010} 00000 n \n").as_bytes());
        }
        out.extend_from_slice(format!("trailer\n<< /Size {} /Root {root} 0 R >>\nstartxref\n{xref}\n%%EOF\n", self.objs.len() + 1).as_bytes());
        out
    }
}

impl RawPdf {
    /// The same objects written the PDF 1.5 way: every non-stream object inside one
    /// uncompressed object stream, and an uncompressed cross-reference stream (/W [1 4 2]).
    pub fn finish_compressed(&self, root: u32) -> Vec<u8> {
        let n = self.objs.len() as u32;
        let stm_num = n + 1;
        let xref_num = n + 2;
        let mut out = b"%PDF-1.5\n%\xE2\xE3\xCF\xD3\n".to_vec();
        // entry per object number: (type, field2, field3)
        let mut entries: Vec<(u8, u32, u16)> = vec![(0, 0, 65535)];
        let mut packed: Vec<(u32, Vec<u8>)> = Vec::new();
        let mut plain: Vec<(u32, Vec<u8>)> = Vec::new();
        for (i, o) in self.objs.iter().enumerate() {
            let num = i as u32 + 1;
            let body = o.clone().unwrap_or_else(|| b"null".to_vec());
            let is_stream = body.windows(8).any(|w| w == b"\nstream\n");
            if is_stream || num == root && false {
                plain.push((num, body));
            } else {
                packed.push((num, body));
            }
        }
        let mut slot: std::collections::HashMap<u32, (u8, u32, u16)> = std::collections::HashMap::new();
        for (idx, (num, _)) in packed.iter().enumerate() {
            slot.insert(*num, (2, stm_num, idx as u16));
        }
        for (num, body) in &plain {
            slot.insert(*num, (1, out.len() as u32, 0));
            out.extend_from_slice(format!("{num} 0 obj\n").as_bytes());
            out.extend_from_slice(body);
            out.extend_from_slice(b"\nendobj\n");
        }
        // object stream
        let mut head = String::new();
        let mut data: Vec<u8> = Vec::new();
        for (num, body) in &packed {
            head.push_str(&format!("{num} {} ", data.len()));
            data.extend_from_slice(body);
            data.push(b'\n');
        }
        let mut stm = head.clone().into_bytes();
        stm.extend_from_slice(&data);
        let stm_off = out.len() as u32;
        out.extend_from_slice(format!("{stm_num} 0 obj\n").as_bytes());
        out.extend_from_slice(&Self::stream_body(&format!("/Type /ObjStm /N {} /First {}", packed.len(), head.len()), &stm));
        out.extend_from_slice(b"\nendobj\n");
        for num in 1..=n {
            entries.push(slot[&num]);
        }
        entries.push((1, stm_off, 0));
        let xref_off = out.len() as u32;
        entries.push((1, xref_off, 0));
        let mut xd: Vec<u8> = Vec::new();
        for (t, a, b) in &entries {
            xd.push(*t);
            xd.extend_from_slice(&a.to_be_bytes());
            xd.extend_from_slice(&b.to_be_bytes());
        }
        out.extend_from_slice(format!("{xref_num} 0 obj\n").as_bytes());
        out.extend_from_slice(&Self::stream_body(&format!("/Type /XRef /Size {} /W [1 4 2] /Root {root} 0 R", xref_num + 1), &xd));
        out.extend_from_slice(format!("\nendobj\nstartxref\n{xref_off}\n%%EOF\n").as_bytes());
        out
    }
}
