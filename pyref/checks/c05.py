"""C05 — encryption round-trips for every strength, configuration and password (and C06 direction B:
the library's encrypted output decrypted by the independent implementation)."""
import glob, json, os
from multiprocessing import Pool
from .common import args, load_obs
from .docchecks import load_doc_cases, cfgclass
from .. import pdf, crypto
from ..pdf import Name, String, Ref, Stream, PdfError
from ..recpy import Recorder

# by-design differences between the plain and the encrypted build: the producer records a
# feature bit for "encrypted" in /Info (writer/signature.rs)
SKIP_KEYS = {b"oxidize-pdf-features".hex()}


def graph_from_objects(start, getobj):
    """Canonical, numbering-independent form of the object graph reachable from the canonical
    value `start`. getobj(num, gen) -> canonical object or None."""
    order = {}
    nodes = []

    def walk(c, depth):
        if depth > 300:
            return "<deep>"
        if isinstance(c, dict):
            if "ref" in c:
                key = tuple(c["ref"])
                if key in order:
                    return {"node": order[key]}
                idx = len(nodes)
                order[key] = idx
                nodes.append(None)
                tgt = getobj(key[0], key[1])
                nodes[idx] = walk(tgt, depth + 1)
                return {"node": idx}
            if "d" in c:
                return {"d": {k: walk(v, depth + 1) for k, v in sorted(c["d"].items()) if k not in SKIP_KEYS}}
            if "st" in c:
                st = {k: v for k, v in c["st"].items() if k != b"Length".hex()}
                # by design: a metadata stream kept in the clear is tagged /Filter /Crypt with an
                # Identity crypt filter in the encrypted build only
                F, DP = b"Filter".hex(), b"DecodeParms".hex()
                flt = st.get(F)
                if flt == {"n": b"Crypt".hex()} or (isinstance(flt, list) and flt[:1] == [{"n": b"Crypt".hex()}]):
                    rest = flt[1:] if isinstance(flt, list) else []
                    dp = st.get(DP)
                    dprest = dp[1:] if isinstance(dp, list) else []
                    st.pop(F, None); st.pop(DP, None)
                    if rest:
                        st[F] = rest[0] if len(rest) == 1 else rest
                        if any(x is not None for x in dprest):
                            st[DP] = dprest[0] if len(dprest) == 1 else dprest
                st = {k: walk(v, depth + 1) for k, v in sorted(st.items())}
                return {"st": st, "data": c.get("dec_sha") or c.get("sha")}
            return c
        if isinstance(c, list):
            return [walk(v, depth + 1) for v in c]
        return c

    top = walk(start, 0)
    return {"top": top, "nodes": nodes}


def first_diff(a, b, path=""):
    if type(a) != type(b):
        return path, a, b
    if isinstance(a, dict):
        for k in sorted(set(a) | set(b)):
            if k not in a or k not in b:
                kk = k
                try:
                    kk = bytes.fromhex(k).decode("latin-1")
                except Exception:
                    pass
                return path + "/" + str(kk), a.get(k, "<absent>"), b.get(k, "<absent>")
            d = first_diff(a[k], b[k], path + "/" + (bytes.fromhex(k).decode("latin-1") if all(ch in "0123456789abcdef" for ch in k) and len(k) % 2 == 0 and k not in ("d", "st") else k))
            if d:
                return d
        return None
    if isinstance(a, list):
        if len(a) != len(b):
            return path + "[len]", len(a), len(b)
        for i, (x, y) in enumerate(zip(a, b)):
            d = first_diff(x, y, path + "[%d]" % i)
            if d:
                return d
        return None
    return None if a == b else (path, a, b)


def diff_kind(d):
    path, a, b = d
    if isinstance(a, dict) and "s" in a and isinstance(b, dict) and "s" in b:
        return "string_differs"
    if path.endswith("/data"):
        return "stream_data_differs"
    return "structure_differs"


def strip_root(c):
    return c


def pyref_graph(data, pw, lenient_crypt_default=False):
    doc = pdf.Document(data, password=pw)
    if doc.decryptor is not None:
        # diagnosis only: read "/Filter /Crypt" without /Name as "encrypted with StmF"
        # (the specification says: Identity, i.e. not encrypted)
        doc.decryptor.lenient_crypt_default = lenient_crypt_default
    tr = doc.trailer

    def getobj(n, g):
        o = doc.get(n, g)
        c = pdf.canon(o)
        if isinstance(o, Stream):
            try:
                import hashlib
                c["dec_sha"] = hashlib.sha1(pdf.decode_stream(o, doc.resolve)).hexdigest()
            except Exception:
                pass
        return c

    start = {"d": {b"Root".hex(): pdf.canon(tr.get(b"Root")), b"Info".hex(): pdf.canon(tr.get(b"Info"))}}
    return graph_from_objects(start, getobj), doc


def obs_graph(o):
    objs = o.get("objects", {})

    def getobj(n, g):
        return objs.get("%d %d" % (n, g))

    start = {"d": {b"Root".hex(): o.get("catalog"), b"Info".hex(): o.get("info")}}
    return graph_from_objects(start, getobj)


def analyse(job):
    d, plain_case, enc_cases, obs = job
    out = []
    cnt = {}
    base_data = open(os.path.join(d, plain_case["file"]), "rb").read()
    try:
        base_ref, _ = pyref_graph(base_data, None)
    except Exception as e:
        return [("inconc", "plain build unreadable by reference (%s): %s" % (plain_case["id"], e), None, None)], cnt
    base_lib = {}
    for preset, o in obs.get(plain_case["id"], {}).items():
        if not o.get("open_err") and "panic" not in o:
            base_lib[preset] = obs_graph(o)
    for c in enc_cases:
        enc = c["enc"]
        which = c.get("which", "user")
        cc = "obj_streams=%s" % ("1" if "obj_streams=1" in c["config"] else "0")
        cls = "%s|%s" % (enc["strength"], cc)
        wit = {"case": c["id"], "config": c["config"], "enc": enc, "which": which, "program_file": c["program_file"]}
        data = open(os.path.join(d, c["file"]), "rb").read()
        pw_str = enc["user_pw"] if which == "user" else (enc["owner_pw"] if which == "owner" else c["password"])
        pwcls = enc["ucls"] if which == "user" else (enc["ocls"] if which == "owner" else "wrong")
        nonascii = any(ord(ch) > 127 for ch in pw_str)
        # ---- reference side (C06 direction B + independent judge of the written file)
        if which in ("user", "owner") and c["id"].endswith(("-owner",)) is (which == "owner"):
            pwb = crypto.utf8_password(pw_str) if enc["strength"] == "aes_256" else pw_str.encode("utf-8")
            cnt["ref_decryptions"] = cnt.get("ref_decryptions", 0) + 1
            try:
                g, doc = pyref_graph(data, pwb)
                P = doc.resolve(doc.trailer.get(b"Encrypt")).get(b"P")
                want_P = enc["P"] - (1 << 32) if enc["P"] >= (1 << 31) else enc["P"]
                if P != want_P:
                    out.append(("C05", "C05|permissions_written_differ_from_requested|%s" % enc["strength"], "%s: /P %r, requested %r" % (c["id"], P, want_P), wit))
                dd = first_diff(g, base_ref)
                if dd and diff_kind(dd) == "stream_data_differs":
                    g2, _ = pyref_graph(data, pwb, lenient_crypt_default=True)
                    if first_diff(g2, base_ref) is None:
                        out.append(("C05", "C05|ref|%s|encrypted_streams_tagged_Filter_Crypt_without_Name_which_means_Identity" % cls,
                                    "%s: streams carry /Filter /Crypt with no /DecodeParms /Name (= Identity, not encrypted) yet their data is encrypted; an independent reader gets ciphertext" % c["id"], wit))
                        dd = None
                if dd and "obj_streams=1" in cls and isinstance(dd[1], str) and isinstance(dd[2], str) and dd[0].endswith("/s"):
                    # is it the plaintext string encrypted once more with some member object's key?
                    got_b, want_b = bytes.fromhex(dd[1]), bytes.fromhex(dd[2])
                    hit = False
                    for n in range(1, 80):
                        try:
                            if doc.decryptor._dec(got_b, n, 0, doc.decryptor.str_method) == want_b:
                                hit = True
                                break
                        except Exception:
                            pass
                    if hit:
                        out.append(("C05", "C05|ref|%s|strings_inside_object_stream_are_encrypted_individually" % cls,
                                    "%s: after decrypting the object stream the strings of its members are still ciphertext under their own object keys (e.g. %s)" % (c["id"], dd[0]), wit))
                        dd = None
                if dd:
                    out.append(("C05", "C05|ref|%s|%s_pw|%s" % (cls, which, diff_kind(dd)), "%s: independent decryption differs from the plain build at %s: %s vs %s" % (c["id"], dd[0], json.dumps(dd[1])[:120], json.dumps(dd[2])[:120]), wit))
            except PdfError as e:
                msg = str(e)
                kind = "password_does_not_authenticate" if "authenticate" in msg else "unreadable"
                extra = "|non_ascii_password" if (nonascii and kind == "password_does_not_authenticate") else ""
                out.append(("C05", "C05|ref|%s|%s_pw|%s%s" % (cls, which, kind, extra), "%s (pw class %s): %s" % (c["id"], pwcls, msg), wit))
            except Exception as e:
                out.append(("inconc", "reference crashed on %s: %s: %s" % (c["id"], type(e).__name__, e), None, None))
        # ---- library side
        for preset, o in obs.get(c["id"], {}).items():
            cnt["obs"] = cnt.get("obs", 0) + 1
            if "panic" in o:
                out.append(("C05", "C05|panic|%s" % o["panic"], "%s: %s" % (c["id"], o.get("panic_msg")), wit))
                continue
            if o.get("open_err"):
                out.append(("C05", "C05|lib|%s|cannot_open" % cls, "%s preset %s: %s" % (c["id"], preset, o["open_err"]), wit))
                continue
            if which == "wrong":
                if enc["user_pw"] == "":
                    continue
                if o.get("unlock") == "ok":
                    out.append(("C05", "C05|lib|%s|wrong_password_accepted" % cls, "%s: unlock(%r) succeeded (encrypted=%r)" % (c["id"], pw_str, o.get("encrypted")), wit))
                elif preset in base_lib and first_diff(obs_graph(o), base_lib[preset]) is None:
                    out.append(("C05", "C05|lib|%s|content_readable_without_password" % cls, "%s: full plaintext graph readable while locked (encrypted=%r)" % (c["id"], o.get("encrypted")), wit))
                continue
            if not o.get("encrypted"):
                out.append(("C05", "C05|lib|%s|written_file_not_recognised_as_encrypted" % cls, "%s preset %s" % (c["id"], preset), wit))
                continue
            if o.get("unlock") != "ok":
                extra = "|non_ascii_password" if nonascii else ""
                out.append(("C05", "C05|lib|%s|%s_pw|correct_password_refused%s" % (cls, which, extra), "%s preset %s (pw class %s): %r" % (c["id"], preset, pwcls, o.get("unlock")), wit))
                continue
            if preset not in base_lib:
                continue
            dd = first_diff(obs_graph(o), base_lib[preset])
            cnt["lib_graphs_compared"] = cnt.get("lib_graphs_compared", 0) + 1
            if dd and "obj_streams=1" in cls and dd[0] == "/nodes[len]" and dd[1] == 0:
                out.append(("C05", "C05|lib|%s|own_encrypted_object_stream_file_unreadable_catalog_not_found" % cls, "%s preset %s: nothing reachable from /Root after unlock (events %r)" % (c["id"], preset, o.get("events")), wit))
            elif dd:
                out.append(("C05", "C05|lib|%s|%s_pw|%s" % (cls, which, diff_kind(dd)), "%s preset %s: unlocked graph differs from the plain build at %s: %s vs %s" % (c["id"], preset, dd[0], json.dumps(dd[1])[:120], json.dumps(dd[2])[:120]), wit))
    return out, cnt


def main():
    out, seed, tier, kv = args()
    rec = Recorder("py")
    d = os.path.join(out, "cases")
    cases = load_doc_cases(d)
    obs = load_obs(out)
    groups = {}
    for c in cases:
        if "write_error" in c:
            rec.violation("C05|writer_returns_error|%s" % (c.get("enc") or {}).get("strength"), c["write_error"], {"case": c["id"], "config": c["config"], "enc": c.get("enc")})
            continue
        key = (c["prog"], c["config"])
        g = groups.setdefault(key, {"plain": None, "enc": []})
        if c.get("enc"):
            g["enc"].append(c)
        else:
            g["plain"] = c
    jobs = []
    for key, g in groups.items():
        if g["plain"] is None or not g["enc"]:
            continue
        sub = {g["plain"]["id"]: obs.get(g["plain"]["id"], {})}
        for c in g["enc"]:
            sub[c["id"]] = obs.get(c["id"], {})
        jobs.append((d, g["plain"], g["enc"], sub))
    import gc
    with Pool(min(16, os.cpu_count() or 4), initializer=gc.disable, maxtasksperchild=30) as pool:
        for job, (viol, cnt) in zip(jobs, pool.imap(analyse, jobs, chunksize=1)):
            for c in job[2]:
                e = c["enc"]
                rec.case("%s|%s" % (c["id"], c.get("which", "user")), nontrivial=True)
                rec.set_add("matrix_strength_config_pwclass", "%s|%s|%s" % (e["strength"], cfgclass(c), e["ucls"]))
            for p, sig, detail, wit in viol:
                if p == "inconc":
                    rec.inconc(sig)
                else:
                    rec.violation(sig, detail, wit)
            for k, n in cnt.items():
                rec.count(k, n)
            if len(rec.samples) < 3:
                rec.sample({"plain": job[1]["id"], "encrypted": [c["id"] for c in job[2]][:4], "enc": job[2][0]["enc"]})
    rec.write(out)


if __name__ == "__main__":
    main()
