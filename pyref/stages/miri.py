"""Stage: run a Miri target over many Miri scheduler seeds and turn its output
into a shard file. usage: python -m pyref.stages.miri OUT SEED TIER bin=c29 seeds=N plans=M prop=C29"""
import os, re, subprocess, sys, time
from ..recpy import Recorder

MIRI_DIR = os.path.join(os.path.dirname(os.path.dirname(os.path.dirname(os.path.abspath(__file__)))), "harness", "miri")


def main():
    out, seed, tier = sys.argv[1], int(sys.argv[2]), sys.argv[3]
    kv = dict(a.split("=", 1) for a in sys.argv[4:])
    binname, prop = kv["bin"], kv["prop"]
    nseeds = int(kv.get("seeds", "64"))
    extra = kv.get("args", "").split(",") if kv.get("args") else []
    rec = Recorder("miri")
    env = dict(os.environ, CARGO_NET_OFFLINE="true",
               MIRIFLAGS="-Zmiri-disable-isolation -Zmiri-many-seeds=%d..%d" % (seed * 100000, seed * 100000 + nseeds))
    t = time.time()
    cmd = ["cargo", "+nightly", "miri", "run", "--offline", "--bin", binname, "--", str(seed)] + extra
    try:
        r = subprocess.run(cmd, cwd=MIRI_DIR, env=env, stdout=subprocess.PIPE, stderr=subprocess.PIPE, text=True,
                           timeout=int(kv.get("timeout", "3000")))
    except subprocess.TimeoutExpired:
        rec.inconc("miri run timed out")
        rec.write(out)
        return
    outp, err = r.stdout, r.stderr
    oks = len(re.findall(r"^MIRI-OK", outp, re.M))
    for m in re.finditer(r"^MIRI-HISTORY sig=(\S+) overlap=(\w+)", outp, re.M):
        rec.case("miri|" + m.group(1), nontrivial=(m.group(2) == "true"))
        rec.set_add("miri_interleavings", m.group(1))
    for m in re.finditer(r"^MIRI-CASE (\S+) nontrivial=(\w+)", outp, re.M):
        rec.case("miri|" + m.group(1), nontrivial=(m.group(2) == "true"))
    for m in re.finditer(r"^MIRI-VIOLATION (\S+) (.*)$", outp, re.M):
        rec.violation(m.group(1) + "|under_miri", m.group(2)[:1500], {"miri_cmd": " ".join(cmd), "MIRIFLAGS": env["MIRIFLAGS"]})
    # Miri's own diagnostics
    for m in re.finditer(r"^error: (Undefined Behavior|Data race detected|unsupported operation|memory leaked|the evaluated program (deadlocked|panicked))[^\n]*", err, re.M):
        kind = m.group(1)
        if kind.startswith("unsupported operation"):
            rec.inconc("miri: " + m.group(0)[:300])
            continue
        if kind.startswith("memory leaked"):
            continue
        ctx = err[m.start():m.start() + 1500]
        loc = re.search(r"--> ([^\n]*oxidize-pdf-core/[^\n:]+:\d+)", ctx)
        where = loc.group(1).split("oxidize-pdf-core/")[-1] if loc else "unknown"
        rec.violation("%s|miri|%s|%s" % (prop, kind.replace(" ", "_"), where), ctx, {"miri_cmd": " ".join(cmd), "MIRIFLAGS": env["MIRIFLAGS"]})
    rec.count("miri_seeds_completed_ok", oks)
    rec.count("miri_seeds_requested", nseeds)
    rec.extra["miri_wall_s"] = round(time.time() - t, 1)
    if oks == 0 and not rec.violations:
        rec.inconc("miri produced no completed run: rc=%s stderr tail: %s" % (r.returncode, err[-1500:]))
    rec.write(out)


if __name__ == "__main__":
    main()
