//! C29 core: reference LRU model, exhaustive sequential comparison, concurrent
//! history recording and a Wing–Gong style linearizability search.
//! Depends only on std + oxidize_pdf so that the Miri target can include it
//! with `#[path]`.
use oxidize_pdf::memory::{LruCache, ObjectCache};
use oxidize_pdf::objects::ObjectId;
use oxidize_pdf::parser::objects::PdfObject;
use std::collections::HashSet;
use std::sync::atomic::{AtomicU64, AtomicUsize, Ordering};
use std::sync::Arc;

#[derive(Clone, Copy, Debug, PartialEq, Eq, Hash)]
pub enum Op {
    Get(u8),
    Put(u8, u32),
    Clear,
    Len,
}

#[derive(Clone, Copy, Debug, PartialEq, Eq, Hash)]
pub enum Ret {
    Val(Option<u32>),
    Unit,
    Len(usize),
}

/// The 15-line reference: MRU first.
#[derive(Clone, Debug, PartialEq, Eq, Hash, Default)]
pub struct Model {
    pub cap: usize,
    pub items: Vec<(u8, u32)>,
}

impl Model {
    pub fn new(cap: usize) -> Self {
        Model { cap, items: Vec::new() }
    }
    pub fn apply(&mut self, op: Op) -> Ret {
        match op {
            Op::Get(k) => match self.items.iter().position(|e| e.0 == k) {
                Some(i) => {
                    let e = self.items.remove(i);
                    self.items.insert(0, e);
                    Ret::Val(Some(e.1))
                }
                None => Ret::Val(None),
            },
            Op::Put(k, v) => {
                if self.cap == 0 {
                    return Ret::Unit;
                }
                if let Some(i) = self.items.iter().position(|e| e.0 == k) {
                    self.items.remove(i);
                } else if self.items.len() >= self.cap {
                    self.items.pop();
                }
                self.items.insert(0, (k, v));
                Ret::Unit
            }
            Op::Clear => {
                self.items.clear();
                Ret::Unit
            }
            Op::Len => Ret::Len(self.items.len()),
        }
    }
}

pub trait CacheUnderTest {
    fn apply(&mut self, op: Op) -> Ret;
}

pub struct LruUT(pub LruCache<u8, u32>);
impl CacheUnderTest for LruUT {
    fn apply(&mut self, op: Op) -> Ret {
        match op {
            Op::Get(k) => Ret::Val(self.0.get(&k).copied()),
            Op::Put(k, v) => {
                self.0.put(k, v);
                Ret::Unit
            }
            Op::Clear => {
                self.0.clear();
                Ret::Unit
            }
            Op::Len => Ret::Len(self.0.len()),
        }
    }
}

pub fn oid(k: u8) -> ObjectId {
    ObjectId::new(k as u32 + 1, 0)
}
pub fn obj_val(o: &PdfObject) -> Option<u32> {
    match o {
        PdfObject::Integer(i) => Some(*i as u32),
        _ => None,
    }
}

pub struct ObjUT(pub ObjectCache);
impl CacheUnderTest for ObjUT {
    fn apply(&mut self, op: Op) -> Ret {
        apply_obj(&self.0, op)
    }
}

pub fn apply_obj(c: &ObjectCache, op: Op) -> Ret {
    match op {
        Op::Get(k) => Ret::Val(c.get(&oid(k)).and_then(|o| obj_val(&o))),
        Op::Put(k, v) => {
            c.put(oid(k), Arc::new(PdfObject::Integer(v as i64)));
            Ret::Unit
        }
        Op::Clear => {
            c.clear();
            Ret::Unit
        }
        Op::Len => Ret::Len(c.stats().size),
    }
}

/// The op alphabet for the exhaustive enumeration: get/put on `nkeys` keys, clear, len.
pub fn nops(nkeys: usize) -> usize {
    2 * nkeys + 2
}
pub fn op_of(code: usize, fresh: u32, nkeys: usize) -> Op {
    if code < nkeys {
        Op::Get(code as u8)
    } else if code < 2 * nkeys {
        Op::Put((code - nkeys) as u8, fresh)
    } else if code == 2 * nkeys {
        Op::Clear
    } else {
        Op::Len
    }
}

#[derive(Default, Debug)]
pub struct SeqStats {
    pub sequences: u64,
    pub steps: u64,
    pub with_eviction: u64,
    pub violation: Option<(String, String)>, // (signature, detail)
}

/// Run one op-code sequence against a fresh cache of `cap` and the model;
/// after the sequence, probe every key. Returns Err(detail) at the first
/// disagreement.
pub fn run_sequence<C: CacheUnderTest>(
    mut cut: C,
    cap: usize,
    codes: &[usize],
    nkeys: usize,
    evicted: &mut bool,
) -> Result<(), String> {
    let mut m = Model::new(cap);
    for (i, &c) in codes.iter().enumerate() {
        let op = op_of(c, 100 + i as u32, nkeys);
        if let Op::Put(k, _) = op {
            if cap > 0 && m.items.len() >= cap && !m.items.iter().any(|e| e.0 == k) {
                *evicted = true;
            }
        }
        let want = m.apply(op);
        let got = cut.apply(op);
        if want != got {
            return Err(format!(
                "cap={cap} ops={:?} step {i} {:?}: model {:?}, cache {:?}",
                codes.iter().enumerate().map(|(j, &c)| op_of(c, 100 + j as u32, nkeys)).collect::<Vec<_>>(),
                op, want, got
            ));
        }
        if let Ret::Len(n) = cut.apply(Op::Len) {
            if n > cap {
                return Err(format!("cap={cap} len {n} exceeds capacity after step {i} of {:?}", codes));
            }
        }
    }
    for k in 0..nkeys as u8 {
        let want = m.apply(Op::Get(k));
        let got = cut.apply(Op::Get(k));
        if want != got {
            return Err(format!(
                "cap={cap} ops={:?} final probe Get({k}): model {:?}, cache {:?}",
                codes.iter().enumerate().map(|(j, &c)| op_of(c, 100 + j as u32, nkeys)).collect::<Vec<_>>(),
                want, got
            ));
        }
    }
    Ok(())
}

/// Enumerate all sequences of exactly `len` op codes whose index (base NOPS)
/// satisfies `mine(idx)`, for both cache types and capacities 0..=4.
pub fn enumerate(len: usize, nkeys: usize, mine: &dyn Fn(u64) -> bool, st: &mut SeqStats) {
    enumerate_caps(len, nkeys, &[0, 1, 2, 3, 4], true, mine, st)
}

/// Same, restricted to the given capacities; `both` = also run ObjectCache.
pub fn enumerate_caps(len: usize, nkeys: usize, caps: &[usize], both: bool, mine: &dyn Fn(u64) -> bool, st: &mut SeqStats) {
    let nops = nops(nkeys);
    let total = (nops as u64).pow(len as u32);
    let mut codes = vec![0usize; len];
    for idx in 0..total {
        if !mine(idx) {
            continue;
        }
        let mut x = idx;
        for c in codes.iter_mut() {
            *c = (x % nops as u64) as usize;
            x /= nops as u64;
        }
        for &cap in caps {
            let mut ev = false;
            let r1 = run_sequence(LruUT(LruCache::new(cap)), cap, &codes, nkeys, &mut ev);
            let r2 = if both { run_sequence(ObjUT(ObjectCache::new(cap)), cap, &codes, nkeys, &mut ev) } else { Ok(()) };
            st.sequences += 1 + both as u64;
            st.steps += (1 + both as u64) * (len + nkeys) as u64;
            if ev {
                st.with_eviction += 1;
            }
            if st.violation.is_none() {
                if let Err(d) = r1 {
                    st.violation = Some(("C29|sequential|LruCache|differs_from_reference_lru".into(), d));
                } else if let Err(d) = r2 {
                    st.violation = Some(("C29|sequential|ObjectCache|differs_from_reference_lru".into(), d));
                }
            }
        }
    }
}

// ------------------------------------------------------------ concurrency

#[derive(Clone, Debug)]
pub struct Event {
    pub thread: usize,
    pub op: Op,
    pub ret: Ret,
    pub call: u64,
    pub retn: u64,
}

pub struct Plan {
    pub cap: usize,
    /// per thread: ops with a spin count before each
    pub threads: Vec<Vec<(Op, u32)>>,
}

fn spin(n: u32) {
    for _ in 0..n {
        std::hint::spin_loop();
    }
}

/// Execute a plan on a fresh ObjectCache with real threads; returns the history
/// and the maximum `stats().size` any thread saw.
pub fn run_plan(plan: &Plan, yield_instead_of_spin: bool) -> (Vec<Event>, usize) {
    let cache = Arc::new(ObjectCache::new(plan.cap));
    let clock = Arc::new(AtomicU64::new(1));
    let ready = Arc::new(AtomicUsize::new(0));
    let n = plan.threads.len();
    let max_size = Arc::new(AtomicUsize::new(0));
    let mut handles = Vec::new();
    for (ti, ops) in plan.threads.iter().enumerate() {
        let (cache, clock, ready, ops, max_size) =
            (cache.clone(), clock.clone(), ready.clone(), ops.clone(), max_size.clone());
        handles.push(std::thread::spawn(move || {
            ready.fetch_add(1, Ordering::SeqCst);
            let mut spins = 0u32;
            while ready.load(Ordering::SeqCst) < n {
                spins += 1;
                if yield_instead_of_spin || spins > 2000 {
                    std::thread::yield_now();
                } else {
                    std::hint::spin_loop();
                }
            }
            let mut evs = Vec::with_capacity(ops.len());
            for (op, delay) in ops {
                if yield_instead_of_spin {
                    for _ in 0..(delay % 3) {
                        std::thread::yield_now();
                    }
                } else {
                    spin(delay);
                }
                let call = clock.fetch_add(1, Ordering::SeqCst);
                let ret = apply_obj(&cache, op);
                let retn = clock.fetch_add(1, Ordering::SeqCst);
                if let Ret::Len(sz) = ret {
                    max_size.fetch_max(sz, Ordering::SeqCst);
                }
                evs.push(Event { thread: ti, op, ret, call, retn });
            }
            evs
        }));
    }
    let mut all = Vec::new();
    for h in handles {
        all.extend(h.join().expect("worker thread"));
    }
    // epilogue at quiescence (main thread): size and membership of every key
    let mut epi = vec![Op::Len];
    for k in 0..3u8 {
        epi.push(Op::Get(k));
    }
    epi.push(Op::Len);
    for op in epi {
        let call = clock.fetch_add(1, Ordering::SeqCst);
        let ret = apply_obj(&cache, op);
        let retn = clock.fetch_add(1, Ordering::SeqCst);
        if let Ret::Len(sz) = ret {
            max_size.fetch_max(sz, Ordering::SeqCst);
        }
        all.push(Event { thread: usize::MAX, op, ret, call, retn });
    }
    all.sort_by_key(|e| e.call);
    (all, max_size.load(Ordering::SeqCst))
}

/// Is there a linearization of `h` against the reference LRU of `cap`?
/// Returns (found, search nodes expanded).
pub fn linearizable(h: &[Event], cap: usize) -> (bool, u64) {
    let n = h.len();
    assert!(n <= 30);
    let mut seen: HashSet<(u32, Model)> = HashSet::new();
    let mut nodes = 0u64;
    fn dfs(h: &[Event], done: u32, m: &Model, seen: &mut HashSet<(u32, Model)>, nodes: &mut u64) -> bool {
        let n = h.len();
        if done.count_ones() as usize == n {
            return true;
        }
        if !seen.insert((done, m.clone())) {
            return false;
        }
        *nodes += 1;
        // earliest return among pending ops: an op may go first only if it was
        // called before that return
        let mut min_ret = u64::MAX;
        for (i, e) in h.iter().enumerate() {
            if done & (1 << i) == 0 {
                min_ret = min_ret.min(e.retn);
            }
        }
        for (i, e) in h.iter().enumerate() {
            if done & (1 << i) != 0 || e.call > min_ret {
                continue;
            }
            let mut m2 = m.clone();
            if m2.apply(e.op) == e.ret && dfs(h, done | (1 << i), &m2, seen, nodes) {
                return true;
            }
        }
        false
    }
    let ok = dfs(h, 0, &Model::new(cap), &mut seen, &mut nodes);
    (ok, nodes)
}

/// Did any two operations of different threads really overlap in time?
pub fn has_overlap(h: &[Event]) -> bool {
    for a in h {
        for b in h {
            if a.thread != b.thread && a.call < b.retn && b.call < a.retn {
                return true;
            }
        }
    }
    false
}

/// Signature of the interleaving: order of (thread) at call events.
pub fn interleaving_sig(h: &[Event]) -> String {
    let mut evs: Vec<(u64, char, usize)> = Vec::new();
    for e in h {
        evs.push((e.call, 'c', e.thread));
        evs.push((e.retn, 'r', e.thread));
    }
    evs.sort();
    evs.iter().filter(|e| e.2 != usize::MAX).map(|e| format!("{}{}", e.1, e.2)).collect::<Vec<_>>().join("")
}

/// Tiny LCG so plans are reproducible without the harness RNG (Miri target).
pub struct Lcg(pub u64);
impl Lcg {
    pub fn next(&mut self) -> u64 {
        self.0 = self.0.wrapping_mul(6364136223846793005).wrapping_add(1442695040888963407);
        (self.0 >> 33) ^ (self.0 >> 7)
    }
    pub fn below(&mut self, n: u64) -> u64 {
        self.next() % n
    }
}

pub fn gen_plan(r: &mut Lcg, max_spin: u32) -> Plan {
    let cap = 1 + r.below(3) as usize;
    let nthreads = 2 + r.below(2) as usize;
    let mut fresh = 1000u32;
    let mut threads = Vec::new();
    for _ in 0..nthreads {
        let nops = 3 + r.below(3) as usize;
        let mut ops = Vec::new();
        for _ in 0..nops {
            let k = r.below(3) as u8;
            let op = match r.below(10) {
                0..=3 => Op::Get(k),
                4..=7 => {
                    fresh += 1;
                    Op::Put(k, fresh)
                }
                8 => Op::Len,
                _ => Op::Clear,
            };
            ops.push((op, r.below(max_spin as u64 + 1) as u32));
        }
        threads.push(ops);
    }
    Plan { cap, threads }
}
