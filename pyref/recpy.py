"""Python-side recorder: same shard-file format as harness/src/rec.rs."""
import json, os, struct, hashlib


def fnv64(b: bytes) -> int:
    return int.from_bytes(hashlib.blake2b(b, digest_size=8).digest(), "little")


class Recorder:
    def __init__(self, name="py"):
        self.name = name
        self.evaluations = 0
        self.hashes = set()
        self.violations = {}
        self.samples = []
        self.max_samples = 6
        self.counters = {}
        self.sets = {}
        self.inconclusive = 0
        self.inconclusive_notes = []
        self.extra = {}

    def case(self, descriptor, nontrivial=True):
        self.evaluations += 1
        if nontrivial:
            if isinstance(descriptor, str):
                descriptor = descriptor.encode()
            self.hashes.add(fnv64(descriptor))

    def eval_only(self, n=1):
        self.evaluations += n

    def count(self, key, n=1):
        self.counters[key] = self.counters.get(key, 0) + n

    def set_add(self, name, member):
        self.sets.setdefault(name, set()).add(str(member))

    def sample(self, v):
        if len(self.samples) < self.max_samples:
            self.samples.append(v)

    def violation(self, sig, detail, replay=None):
        if sig in self.violations:
            self.violations[sig]["count"] += 1
        else:
            self.violations[sig] = {"sig": sig, "count": 1, "detail": str(detail)[:2000], "replay": replay}

    def inconc(self, note):
        self.inconclusive += 1
        if len(self.inconclusive_notes) < 10:
            self.inconclusive_notes.append(str(note)[:500])

    def merge(self, other):
        """merge another Recorder (or its dict form)"""
        d = other.to_dict() if isinstance(other, Recorder) else other
        self.evaluations += d["evaluations"]
        self.hashes |= set(d.get("_hashes", []))
        for v in d["violations"]:
            if v["sig"] in self.violations:
                self.violations[v["sig"]]["count"] += v["count"]
            else:
                self.violations[v["sig"]] = dict(v)
        for s in d["samples"]:
            self.sample(s)
        for k, n in d["counters"].items():
            self.count(k, n)
        for k, s in d["sets"].items():
            self.sets.setdefault(k, set()).update(s)
        self.inconclusive += d["inconclusive"]
        for n in d["inconclusive_notes"]:
            if len(self.inconclusive_notes) < 10:
                self.inconclusive_notes.append(n)
        self.extra.update(d.get("extra", {}))

    def to_dict(self, with_hashes=True):
        d = {
            "shard": self.name,
            "evaluations": self.evaluations,
            "distinct_local": len(self.hashes),
            "violations": list(self.violations.values()),
            "samples": self.samples,
            "counters": self.counters,
            "sets": {k: sorted(v) for k, v in self.sets.items()},
            "inconclusive": self.inconclusive,
            "inconclusive_notes": self.inconclusive_notes,
            "extra": self.extra,
        }
        if with_hashes:
            d["_hashes"] = list(self.hashes)
        return d

    def write(self, out_dir):
        os.makedirs(out_dir, exist_ok=True)
        base = os.path.join(out_dir, "shard-%s" % self.name)
        with open(base + ".hashes", "wb") as f:
            for h in self.hashes:
                f.write(struct.pack("<Q", h))
        with open(base + ".json", "w") as f:
            json.dump(self.to_dict(with_hashes=False), f)
