use oxidize_pdf::parser::objects::{PdfDictionary, PdfName, PdfObject, PdfStream};
use oxidize_pdf::parser::ParseOptions;
fn main() {
    let args: Vec<String> = std::env::args().collect();
    let data = vh::rec::unhex(&args[2]);
    let mut d = PdfDictionary::new();
    d.insert("Filter".into(), PdfObject::Name(PdfName(args[1].clone())));
    let s = PdfStream { dict: d, data };
    let r = s.decode(&ParseOptions::default());
    println!("{:?}", r.map(|v| (String::from_utf8_lossy(&v).to_string(), v)));
}
