//! C08 — bounded decoding respects its limit and agrees with full decoding.
use super::c07::{self, Case, Filt};
use crate::gen::enc;
use crate::{Ctx, Recorder, Rng};
use oxidize_pdf::parser::objects::{PdfArray, PdfDictionary, PdfName, PdfObject, PdfStream};
use oxidize_pdf::parser::ParseOptions;
use serde_json::json;

const CEILING: usize = 256 * 1024 * 1024;

fn limits_for(c: &Case, r: &mut Rng) -> Vec<usize> {
    let fin = *c.stage_sizes.last().unwrap_or(&0);
    let mx = c.stage_sizes.iter().copied().max().unwrap_or(0);
    let mut v = vec![0usize, 1, fin.saturating_sub(1), fin, fin + 1, mx.saturating_sub(1), mx, mx + 1, 2 * mx + 7, usize::MAX];
    for s in &c.stage_sizes {
        v.push(s.saturating_sub(1));
        v.push(*s);
        v.push(*s + 1);
    }
    v.push(r.urange(0, mx + 10));
    v.sort();
    v.dedup();
    v
}

pub fn run(ctx: &Ctx, rec: &mut Recorder) -> Result<(), String> {
    let mut r0 = Rng::derive(ctx.seed, 8, 0xFFFF);
    c07::selftest(&mut r0)?;
    let opts = ParseOptions::default();
    let ncases = ctx.qt(16_000u64, 160_000u64);
    for cno in 0..ncases {
        if !ctx.mine(cno) {
            continue;
        }
        let mut r = Rng::derive(ctx.seed, 8, cno);
        let c = c07::gen_case(&mut r, ctx.qt(6_000, 30_000));
        // TIFF predictor 2 is a known gap of the unbounded path (C07); both paths
        // share it, so the differential below still applies.
        let stream = PdfStream { dict: c.dict.clone(), data: c.encoded.clone() };
        let full = match crate::mon::guarded(|| stream.decode(&opts)) {
            Ok(Ok(v)) => v,
            Ok(Err(_)) | Err(_) => {
                rec.inconclusive("unbounded decode failed on a reference-encoded case (reported under C07)");
                continue;
            }
        };
        if full.len() > CEILING {
            rec.violation("C08|unbounded_decode_exceeds_256MiB_ceiling", format!("decode() returned {} bytes", full.len()), c07::describe(&c));
        }
        let fin = *c.stage_sizes.last().unwrap_or(&0);
        let mx = c.stage_sizes.iter().copied().max().unwrap_or(0);
        let chain = c.filters.iter().map(|f| f.name()).collect::<Vec<_>>().join(">");
        for l in limits_for(&c, &mut r) {
            let nontrivial = l >= fin.saturating_sub(1) && l <= mx + 1 && fin > 0;
            rec.case(format!("{cno}|{l}").as_bytes(), nontrivial);
            let cls = if l >= mx { "all_stages_fit" } else if l >= fin { "final_fits_intermediate_does_not" } else { "final_does_not_fit" };
            rec.count(&format!("limit_class.{cls}"));
            let mut w = c07::describe(&c);
            w["limit"] = json!(l.to_string());
            match crate::mon::guarded(|| stream.decode_with_limit(&opts, l)) {
                Err(p) => rec.violation(format!("C08|panic|{}", p.site()), format!("{} (limit {l}, chain {chain})", p.message), w),
                Ok(Ok(v)) => {
                    if v.len() > l {
                        rec.violation("C08|bounded_result_longer_than_limit", format!("limit {l}, returned {} bytes (chain {chain})", v.len()), w);
                    } else if l >= fin && v != full {
                        rec.violation(
                            format!("C08|bounded_result_differs_from_unbounded|{}", c07::pclass_coarse(&c)),
                            format!("limit {l} >= decoded size {fin}: bounded {} bytes != unbounded {} bytes (chain {chain})", v.len(), full.len()),
                            w,
                        );
                    }
                }
                Ok(Err(e)) => {
                    if l >= mx {
                        rec.violation(
                            format!("C08|bounded_decode_fails_although_every_stage_fits|{}", c07::pclass_coarse(&c)),
                            format!("limit {l} >= every stage size {:?}, yet: {e} (chain {chain})", c.stage_sizes),
                            w,
                        );
                    }
                }
            }
        }
        if cno < 2 {
            rec.sample(json!({"case": c07::describe(&c), "limits": limits_for(&c, &mut r).iter().map(|l| l.to_string()).collect::<Vec<_>>()}));
        }
    }
    // ---- garbage: random data x random filter dictionaries x limits (panic / length only)
    let ngarb = ctx.qt(30_000u64, 400_000u64);
    let names = ["FlateDecode", "LZWDecode", "ASCIIHexDecode", "ASCII85Decode", "RunLengthDecode", "CCITTFaxDecode", "DCTDecode", "JBIG2Decode", "Crypt", "Bogus"];
    let ints: [i64; 14] = [-1, 0, 1, 2, 7, 8, 10, 12, 15, 16, 255, 65536, i32::MAX as i64, i64::MAX];
    for g in 0..ngarb {
        if !ctx.mine(g) {
            continue;
        }
        let mut r = Rng::derive(ctx.seed, 88, g);
        let nf = r.urange(1, 3);
        let mut fs: Vec<&str> = Vec::new();
        for _ in 0..nf {
            let upto = if r.chance(1, 5) { names.len() } else { 5 };
            fs.push(*r.pick(&names[..upto]));
        }
        let mut d = PdfDictionary::new();
        d.insert("Filter".into(), PdfObject::Array(PdfArray(fs.iter().map(|n| PdfObject::Name(PdfName(n.to_string()))).collect())));
        if r.bool() {
            let mut parms = Vec::new();
            for _ in 0..nf {
                let mut p = PdfDictionary::new();
                for k in ["Predictor", "Colors", "BitsPerComponent", "Columns", "EarlyChange", "K", "Rows"] {
                    if r.chance(1, 2) {
                        p.insert(k.into(), PdfObject::Integer(*r.pick(&ints)));
                    }
                }
                parms.push(PdfObject::Dictionary(p));
            }
            d.insert("DecodeParms".into(), PdfObject::Array(PdfArray(parms)));
        }
        let len = r.urange(0, 300);
        let data = match r.below(4) {
            0 => r.bytes(len),
            1 => enc::flate(&r.bytes(len), 6),
            2 => enc::lzw_weezl(&r.bytes(len), true),
            _ => {
                let mut v = enc::flate(&enc::sample_data(&mut r, len), 6);
                if !v.is_empty() {
                    let i = r.usize_below(v.len());
                    v[i] ^= 1 << r.below(8);
                }
                v
            }
        };
        let l = *r.pick(&[0usize, 1, 16, 300, 100_000, usize::MAX]);
        let stream = PdfStream { dict: d.clone(), data: data.clone() };
        rec.evaluations += 1;
        let w = json!({"filters": fs, "dict": format!("{d:?}"), "data_hex": crate::rec::hex(&data), "limit": l.to_string()});
        // Colors/BitsPerComponent overflow panics of the predictor are C01's finding; here
        // they would hide everything else, so they are reported with their site like any panic.
        match crate::mon::guarded(|| stream.decode_with_limit(&opts, l)) {
            Err(p) => rec.violation(format!("C08|panic|{}", p.site()), format!("{} (garbage input, filters {fs:?})", p.message), w),
            Ok(Ok(v)) if v.len() > l => rec.violation("C08|bounded_result_longer_than_limit", format!("limit {l}, returned {} bytes (garbage, {fs:?})", v.len()), w),
            _ => {}
        }
    }
    // ---- bombs (thorough): just under / over the 256 MiB ceiling
    if !ctx.quick() {
        for (bi, target) in [CEILING - 4096, CEILING + 4096].iter().enumerate() {
            for fi in 0..2usize {
                if !ctx.mine((bi * 2 + fi) as u64) {
                    continue;
                }
                let raw = vec![0u8; *target];
                let (fname, data) = if fi == 0 {
                    ("FlateDecode", enc::flate(&raw, 9))
                } else {
                    let mut rr = Rng::derive(ctx.seed, 888, bi as u64);
                    let mut f = vec![Filt::Rl];
                    let c = c07::build_case(&mut rr, std::mem::take(&mut f), None, raw.clone());
                    ("RunLengthDecode", c.encoded)
                };
                drop(raw);
                let mut d = PdfDictionary::new();
                d.insert("Filter".into(), PdfObject::Name(PdfName(fname.into())));
                let stream = PdfStream { dict: d, data };
                rec.evaluations += 1;
                rec.count("bombs");
                match crate::mon::guarded(|| stream.decode(&opts)) {
                    Err(p) => rec.violation(format!("C08|panic|{}", p.site()), format!("{} (bomb {fname} {target})", p.message), json!({"filter": fname, "target": target})),
                    Ok(Ok(v)) if v.len() > CEILING => rec.violation("C08|unbounded_decode_exceeds_256MiB_ceiling", format!("{fname} bomb: decode() returned {} bytes", v.len()), json!({"filter": fname, "target": target})),
                    _ => {}
                }
            }
        }
    }
    Ok(())
}
