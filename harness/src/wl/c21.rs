//! C21 — content streams parse back to the operators that were written.
//! Random sequences of GraphicsContext / TextContext calls; the page's generated
//! content (H5) is parsed by ContentParser and logged with the typed IR for the
//! offline checker. Second part: ContentParser::parse on arbitrary bytes must end.
use crate::rec::hex;
use crate::{Ctx, Recorder, Rng};
use oxidize_pdf::graphics::{Color, LineCap, LineDashPattern, LineJoin};
use oxidize_pdf::parser::content::ContentParser;
use oxidize_pdf::text::{Font, TextRenderingMode};
use oxidize_pdf::Page;
use serde_json::{json, Value};
use std::io::Write;

const NUMS: [f64; 16] = [0.0, -0.0, 1.0, -1.5, 0.004, 0.005, 0.006, 1e-7, -1e-7, 123456.789, 1e15, -1e15, f64::NAN, f64::INFINITY, f64::NEG_INFINITY, 3.999];

fn num(r: &mut Rng) -> f64 {
    if r.chance(1, 2) {
        (r.below(200000) as f64 - 100000.0) / 100.0
    } else if r.chance(1, 40) {
        *r.pick(&[1e300, -1e300, 5e-324])
    } else {
        *r.pick(&NUMS)
    }
}
fn unit(r: &mut Rng) -> f64 {
    *r.pick(&[0.0, 1.0, 0.5, 0.1234, 0.33333, 0.00004, 0.99996, -0.5, 1.5, f64::NAN])
}

fn text(r: &mut Rng) -> String {
    match r.below(7) {
        0 => "Hello".into(),
        1 => "(paren) \\ back) (un(bal".into(),
        2 => "Año café ü ß €".into(),
        3 => "line\nfeed\rret\ttab".into(),
        4 => String::new(),
        5 => (0..r.urange(1, 30)).map(|_| char::from_u32(0x20 + r.below(0xE0) as u32).unwrap_or('?')).collect(),
        _ => "Ωμέγα 漢字".into(),
    }
}

pub fn run(ctx: &Ctx, rec: &mut Recorder) -> Result<(), String> {
    let path = ctx.out.join(format!("c21-{}.jsonl", ctx.shard));
    std::fs::create_dir_all(&ctx.out).ok();
    let mut f = std::io::BufWriter::new(std::fs::File::create(&path).map_err(|e| e.to_string())?);
    let nseq = ctx.qt(12_000u64, 400_000u64);
    let fonts = [Font::Helvetica, Font::TimesBold, Font::Courier, Font::Symbol, Font::ZapfDingbats];
    for c in 0..nseq {
        if !ctx.mine(c) {
            continue;
        }
        let mut r = Rng::derive(ctx.seed, 21, c);
        let mut calls: Vec<Value> = Vec::new();
        let built = crate::mon::guarded(|| {
            let mut page = Page::new(600.0, 800.0);
            let n = r.urange(1, 25);
            for _ in 0..n {
                let (a, b, c2, d, e, ff) = (num(&mut r), num(&mut r), num(&mut r), num(&mut r), num(&mut r), num(&mut r));
                let which = r.below(34);
                calls.push(json!({"call": which, "a": [format!("{a}"), format!("{b}"), format!("{c2}"), format!("{d}"), format!("{e}"), format!("{ff}")]}));
                match which {
                    0 => { page.graphics().move_to(a, b); }
                    1 => { page.graphics().line_to(a, b); }
                    2 => { page.graphics().curve_to(a, b, c2, d, e, ff); }
                    3 => { page.graphics().rect(a, b, c2, d); }
                    4 => { page.graphics().close_path(); }
                    5 => { page.graphics().stroke(); }
                    6 => { page.graphics().fill(); }
                    7 => { page.graphics().fill_stroke(); }
                    8 => { page.graphics().set_fill_color(Color::Rgb(unit(&mut r), unit(&mut r), unit(&mut r))); }
                    9 => { page.graphics().set_stroke_color(Color::Gray(unit(&mut r))); }
                    10 => { page.graphics().set_fill_color(Color::Cmyk(unit(&mut r), unit(&mut r), unit(&mut r), unit(&mut r))); }
                    11 => { page.graphics().set_line_width(a); }
                    12 => { page.graphics().set_line_cap(*r.pick(&[LineCap::Butt, LineCap::Round, LineCap::Square])); }
                    13 => { page.graphics().set_line_join(*r.pick(&[LineJoin::Miter, LineJoin::Round, LineJoin::Bevel])); }
                    14 => { page.graphics().set_miter_limit(a); }
                    15 => { page.graphics().set_flatness(a); }
                    16 => { page.graphics().save_state(); }
                    17 => { page.graphics().restore_state(); }
                    18 => { page.graphics().translate(a, b); }
                    19 => { page.graphics().scale(a, b); }
                    20 => { page.graphics().rotate(a); }
                    21 => { page.graphics().transform(a, b, c2, d, e, ff); }
                    22 => { page.graphics().clip(); }
                    23 => { page.graphics().end_path(); }
                    24 => { page.graphics().circle(a, b, c2); }
                    25 => { page.graphics().set_line_dash_pattern(LineDashPattern { array: vec![a.abs().min(1e6), b.abs().min(1e6)], phase: c2 }); }
                    26 => { page.graphics().set_opacity(unit(&mut r)); }
                    27 => {
                        let t = text(&mut r);
                        calls.last_mut().unwrap()["text"] = json!(t);
                        let fnt = r.pick(&fonts).clone();
                        calls.last_mut().unwrap()["font"] = json!(format!("{fnt:?}"));
                        let _ = page.text().set_font(fnt, a.abs().min(500.0)).at(b, c2).write(&t);
                    }
                    28 => { page.text().set_character_spacing(a); }
                    29 => { page.text().set_word_spacing(a); }
                    30 => { page.text().set_horizontal_scaling(a); }
                    31 => { page.text().set_leading(a); }
                    32 => { page.text().set_text_rise(a); }
                    _ => { page.text().set_rendering_mode(*r.pick(&[TextRenderingMode::Fill, TextRenderingMode::Stroke, TextRenderingMode::FillStroke, TextRenderingMode::Invisible])); }
                }
            }
            let ir = page.verif_ops_debug();
            let bytes = page.verif_generate_content();
            (ir, bytes)
        });
        rec.evaluations += 1;
        let (ir, bytes) = match built {
            Err(p) => {
                rec.violation(format!("C21|panic|authoring|{}", p.site()), p.message.clone(), json!({"calls": calls}));
                continue;
            }
            Ok((ir, Ok(b))) => (ir, b),
            Ok((_, Err(e))) => {
                rec.violation("C21|generate_content_error", e.to_string(), json!({"calls": calls}));
                continue;
            }
        };
        let distinct_ops: std::collections::HashSet<&str> = ir.iter().map(|s| s.split(|c: char| !c.is_alphanumeric()).next().unwrap_or("")).collect();
        rec.hashes.insert(crate::rng::fnv64(&bytes));
        for o in &distinct_ops {
            rec.set_add("ir_operators_seen", o.to_string());
        }
        let parsed = crate::mon::guarded(|| ContentParser::parse(&bytes));
        let parsed_v = match parsed {
            Err(p) => {
                rec.violation(format!("C21|panic|ContentParser|{}", p.site()), p.message.clone(), json!({"content_hex": hex(&bytes), "calls": calls}));
                continue;
            }
            Ok(Ok(ops)) => json!(ops.iter().map(|o| format!("{o:?}")).collect::<Vec<_>>()),
            Ok(Err(e)) => json!({"err": e.to_string()}),
        };
        writeln!(f, "{}", json!({"id": c, "content": hex(&bytes), "ir": ir, "parsed": parsed_v, "calls": calls})).ok();
    }
    // ---- termination on arbitrary bytes
    let nrand = ctx.qt(60_000u64, 3_000_000u64);
    let seeds: [&[u8]; 6] = [b"BT /F1 12 Tf (abc) Tj ET", b"q 1 0 0 1 10 10 cm /Im1 Do Q", b"BI /W 2 /H 2 /BPC 8 /CS /G ID \x00\x01\x02\x03 EI", b"[ (a) -120 (b) ] TJ", b"/Span << /ActualText (x) >> BDC (y) Tj EMC", b"0 0 m 10 10 l S [[[[[[[[[[ ]]]]]]]]]]"];
    for c in 0..nrand {
        if !ctx.mine(c) {
            continue;
        }
        let mut r = Rng::derive(ctx.seed, 2121, c);
        let data: Vec<u8> = match r.below(5) {
            0 => { let n = r.urange(0, 200); r.bytes(n) }
            4 => {
                // text-like garbage: long tokens of valid UTF-8 with multi-byte characters at every
                // alignment (error paths that slice or truncate a token by bytes)
                let pool: Vec<char> = "aZ9é漢😀ñ_Ω".chars().collect();
                let mut s = String::new();
                for _ in 0..r.urange(1, 4) {
                    for _ in 0..r.urange(0, 3) { s.push('x'); }
                    for _ in 0..r.urange(1, 70) { s.push(*r.pick(&pool)); }
                    s.push_str(*r.pick(&[" ", "\n", " 1 2 ", " (s) ", " /N "]));
                }
                s.into_bytes()
            }
            1 => {
                let mut v = r.pick(&seeds).to_vec();
                for _ in 0..r.urange(1, 6) {
                    if v.is_empty() { break; }
                    let i = r.usize_below(v.len());
                    match r.below(3) { 0 => v[i] = r.below(256) as u8, 1 => { v.remove(i); } _ => v.insert(i, *r.pick(b"()[]<>/\\ \n")) }
                }
                v
            }
            2 => { let d = r.urange(1, 3000); let mut v = vec![b'['; d]; v.extend_from_slice(b" 1 "); v.extend(vec![b']'; r.urange(0, d)]); v }
            _ => { let mut v = b"BI /W 1000 /H 1000 ID ".to_vec(); let n = r.urange(0, 300); v.extend(r.bytes(n)); v }
        };
        rec.evaluations += 1;
        let t0 = crate::mon::thread_cpu_ns();
        let res = crate::mon::guarded(|| ContentParser::parse(&data).map(|o| o.len()));
        let ms = (crate::mon::thread_cpu_ns() - t0) / 1_000_000;
        if let Err(p) = res {
            rec.violation(format!("C21|panic|ContentParser_arbitrary_bytes|{}", p.site()), p.message.clone(), json!({"data_hex": hex(&data)}));
        }
        if ms > 2000 {
            rec.violation("C21|ContentParser_arbitrary_bytes|cpu_budget_exceeded", format!("{ms} ms for {} bytes", data.len()), json!({"data_hex": hex(&data)}));
        }
    }
    Ok(())
}
