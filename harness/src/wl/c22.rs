//! C22 — batch processing: exactly-once, ordering, counts, progress
//! consistency and stop-on-error, judged over the event log recorded through
//! the H2 hook sites (which double as seeded failpoints).
use crate::{Ctx, Recorder, Rng};
use oxidize_pdf::batch::{
    BatchJob, BatchOptions, BatchProcessor, BatchProgress, JobResult, ProgressInfo, WorkerOptions, WorkerPool,
};
use oxidize_pdf::error::PdfError;
use serde_json::json;
use std::collections::{HashMap, HashSet};
use std::sync::atomic::{AtomicBool, AtomicU64, Ordering};
use std::sync::{mpsc, Arc, Mutex};
use std::time::{Duration, Instant};

#[derive(Clone, Copy, Debug, PartialEq)]
enum Outcome {
    Ok,
    Err,
    Panic,
}

#[derive(Clone, Debug)]
struct Ev {
    site: &'static str,
    a: u64,
    b: u64,
    tid: u64,
}

struct Log {
    evs: Mutex<Vec<Ev>>,
    counter: AtomicU64,
}

fn tid() -> u64 {
    // stable per-thread id without allocation
    thread_local!(static T: u64 = {
        static N: AtomicU64 = AtomicU64::new(1);
        N.fetch_add(1, Ordering::Relaxed)
    });
    T.with(|t| *t)
}

#[derive(Clone, Debug)]
struct Case {
    n: usize,
    par: usize,
    stop_on_error: bool,
    outcomes: Vec<Outcome>,
    builtin: Vec<bool>, // job i is a non-custom (Rotate) job
    callback: bool,
    pool_mode: bool,
    cancel_at: Option<u64>,
    pre_cancel: bool,
    fp_seed: u64,
    hot_sites: [usize; 2],
}

const SITES: [&str; 11] = [
    "batch.dispatch_send",
    "batch.dispatch_cancelled",
    "batch.worker_recv",
    "batch.job_start",
    "batch.op_call",
    "batch.op_return",
    "batch.recorded_ok",
    "batch.recorded_fail",
    "batch.collect",
    "batch.process_jobs_return",
    "h.op_enter",
];

fn gen_case(r: &mut Rng, allow_panic: bool) -> Case {
    let n = if r.chance(1, 30) { 0 } else { r.urange(1, 12) };
    let par = r.urange(1, 4);
    let stop_on_error = r.bool();
    let pool_mode = r.chance(2, 5);
    let mut outcomes = Vec::new();
    let mut builtin = Vec::new();
    let fail_bias = r.urange(0, 3);
    for _ in 0..n {
        let o = match r.below(10) as usize {
            x if x < 1 + fail_bias => Outcome::Err,
            9 if allow_panic && r.chance(1, 3) => Outcome::Panic,
            _ => Outcome::Ok,
        };
        let b = r.chance(1, 4) && o != Outcome::Panic;
        outcomes.push(o);
        builtin.push(b);
    }
    Case {
        n,
        par,
        stop_on_error,
        outcomes,
        builtin,
        callback: r.chance(1, 3),
        pool_mode,
        cancel_at: if pool_mode && r.chance(1, 3) { Some(r.below(6 * n as u64 + 2)) } else { None },
        pre_cancel: !pool_mode && r.chance(1, 25),
        fp_seed: r.next_u64(),
        hot_sites: [r.usize_below(SITES.len()), r.usize_below(SITES.len())],
    }
}

struct RunOut {
    evs: Vec<Ev>,
    results: Option<Vec<JobResult>>,
    summary: Option<(usize, usize, usize, bool)>, // total, successful, failed, cancelled
    final_progress: Option<(usize, usize, usize, usize)>, // total, completed, failed, running
    hung: Option<String>,
    watchdog: bool,
}

fn failpoint(seed: u64, n: u64, hot: bool) {
    let mut x = seed ^ n.wrapping_mul(0x9E3779B97F4A7C15);
    x ^= x >> 29;
    x = x.wrapping_mul(0xBF58476D1CE4E5B9);
    x ^= x >> 32;
    let roll = x % 100;
    let (p_none, p_yield, p_spin) = if hot { (20, 40, 80) } else { (75, 88, 97) };
    if roll < p_none {
    } else if roll < p_yield {
        std::thread::yield_now();
    } else if roll < p_spin {
        let us = (x >> 8) % 200;
        let t = Instant::now();
        while t.elapsed() < Duration::from_micros(us) {
            std::hint::spin_loop();
        }
    } else {
        std::thread::sleep(Duration::from_micros(100 + (x >> 8) % 400));
    }
}

fn run_case(c: &Case, dir: &std::path::Path, ignore_tids: &HashSet<u64>) -> RunOut {
    let log = Arc::new(Log { evs: Mutex::new(Vec::with_capacity(256)), counter: AtomicU64::new(0) });
    let my_cancel = Arc::new(AtomicBool::new(false));
    {
        let log = log.clone();
        let (fp_seed, hot, cancel_at, my_cancel) = (c.fp_seed, c.hot_sites, c.cancel_at, my_cancel.clone());
        oxidize_pdf::verif_hooks::set_sink(Some(Arc::new(move |site, a, b| {
            let n = {
                let mut g = log.evs.lock().unwrap_or_else(|e| e.into_inner());
                g.push(Ev { site, a, b, tid: tid() });
                log.counter.fetch_add(1, Ordering::SeqCst)
            };
            if site == "batch.progress_loop" {
                return;
            }
            if cancel_at == Some(n) {
                my_cancel.store(true, Ordering::SeqCst);
            }
            let hot = SITES[hot[0]] == site || SITES[hot[1]] == site;
            failpoint(fp_seed, n, hot);
        })));
    }
    let hlog = |log: &Arc<Log>, site: &'static str, a: u64, b: u64| {
        let mut g = log.evs.lock().unwrap_or_else(|e| e.into_inner());
        g.push(Ev { site, a, b, tid: tid() });
        log.counter.fetch_add(1, Ordering::SeqCst);
    };
    // build jobs
    let existing = dir.join("in.pdf");
    let mut jobs = Vec::new();
    for i in 0..c.n {
        if c.builtin[i] {
            let input = if c.outcomes[i] == Outcome::Ok { existing.clone() } else { dir.join("missing.pdf") };
            jobs.push(BatchJob::Rotate { input, output: dir.join(format!("out-{i}.pdf")), rotation: 90, pages: None });
        } else {
            let (log2, o) = (log.clone(), c.outcomes[i]);
            jobs.push(BatchJob::Custom {
                name: format!("job-{i}"),
                operation: Box::new(move || {
                    {
                        let mut g = log2.evs.lock().unwrap_or_else(|e| e.into_inner());
                        g.push(Ev { site: "h.op_enter", a: i as u64, b: 0, tid: tid() });
                        log2.counter.fetch_add(1, Ordering::SeqCst);
                    }
                    match o {
                        Outcome::Ok => Ok(()),
                        Outcome::Err => Err(PdfError::InvalidStructure(format!("seeded failure {i}"))),
                        Outcome::Panic => panic!("seeded panic in job {i}"),
                    }
                }),
            });
        }
    }
    let last_info: Arc<Mutex<Option<ProgressInfo>>> = Arc::new(Mutex::new(None));
    let (tx, rx) = mpsc::channel();
    let c2 = c.clone();
    let (log3, my_cancel2, last_info2) = (log.clone(), my_cancel.clone(), last_info.clone());
    std::thread::spawn(move || {
        let c = c2;
        if c.pool_mode {
            let pool = WorkerPool::new(WorkerOptions { num_workers: c.par, memory_limit: 1 << 20, job_timeout: None });
            let progress = Arc::new(BatchProgress::new());
            for _ in 0..c.n {
                progress.add_job();
            }
            let res = pool.process_jobs(jobs, progress.clone(), my_cancel2, c.stop_on_error);
            let info = progress.get_info();
            let _ = tx.send((Some(res), None, Some((info.total_jobs, info.completed_jobs, info.failed_jobs, info.running_jobs))));
        } else {
            let mut opts = BatchOptions::default().with_parallelism(c.par).stop_on_error(c.stop_on_error);
            opts.progress_interval = Duration::from_micros(300);
            if c.callback {
                let li = last_info2.clone();
                opts = opts.with_progress_callback(move |info: &ProgressInfo| {
                    *li.lock().unwrap_or_else(|e| e.into_inner()) = Some(info.clone());
                });
            }
            let mut bp = BatchProcessor::new(opts);
            bp.add_jobs(jobs);
            if c.pre_cancel {
                bp.cancel();
            }
            let r = bp.execute();
            {
                let mut g = log3.evs.lock().unwrap_or_else(|e| e.into_inner());
                g.push(Ev { site: "h.execute_return", a: 0, b: 0, tid: tid() });
            }
            match r {
                Ok(s) => {
                    let fin = last_info2.lock().unwrap_or_else(|e| e.into_inner()).clone();
                    let _ = tx.send((
                        Some(s.results.clone()),
                        Some((s.total_jobs, s.successful, s.failed, s.cancelled)),
                        fin.map(|i| (i.total_jobs, i.completed_jobs, i.failed_jobs, i.running_jobs)),
                    ));
                }
                Err(_) => {
                    let _ = tx.send((None, None, None));
                }
            }
        }
    });
    // supervise: logical-step hang detection, generous wall watchdog
    let t0 = Instant::now();
    let mut hung = None;
    let mut watchdog = false;
    let got = loop {
        match rx.recv_timeout(Duration::from_millis(20)) {
            Ok(v) => break Some(v),
            Err(mpsc::RecvTimeoutError::Disconnected) => break None,
            Err(mpsc::RecvTimeoutError::Timeout) => {
                let g = log.evs.lock().unwrap_or_else(|e| e.into_inner());
                if let Some(pos) = g.iter().position(|e| e.site == "batch.process_jobs_return") {
                    let loops = g[pos..].iter().filter(|e| e.site == "batch.progress_loop" && !ignore_tids.contains(&e.tid)).count();
                    if loops >= 200 {
                        hung = Some(format!("{loops} progress-thread iterations after process_jobs returned, execute() still blocked"));
                        break None;
                    }
                }
                drop(g);
                if t0.elapsed() > Duration::from_secs(20) {
                    watchdog = true;
                    break None;
                }
            }
        }
    };
    let _ = hlog;
    let evs = log.evs.lock().unwrap_or_else(|e| e.into_inner()).clone();
    match got {
        Some((results, summary, fin)) => RunOut { evs, results, summary, final_progress: fin, hung: None, watchdog: false },
        None => RunOut { evs, results: None, summary: None, final_progress: None, hung, watchdog },
    }
}

fn sig_of(evs: &[Ev]) -> u64 {
    let mut s = String::new();
    for e in evs {
        if e.site != "batch.progress_loop" {
            s.push_str(e.site);
            s.push_str(&e.a.to_string());
            s.push(';');
        }
    }
    crate::rng::fnv64(s.as_bytes())
}

pub fn run(ctx: &Ctx, rec: &mut Recorder) -> Result<(), String> {
    crate::mon::set_quiet_all(true);
    let dir = ctx.out.join(format!("c22-files-{}", ctx.shard));
    std::fs::create_dir_all(&dir).map_err(|e| e.to_string())?;
    std::fs::write(dir.join("in.pdf"), b"%PDF-1.4\n%%EOF\n").map_err(|e| e.to_string())?;
    let nruns = ctx.qt(24_000u64, 240_000u64);
    let mut ignore_tids: HashSet<u64> = HashSet::new();
    let mut hung_runs = 0u32;
    let mut first_fail_classes: HashSet<String> = HashSet::new();
    for rno in 0..nruns {
        if !ctx.mine(rno) {
            continue;
        }
        let mut r = Rng::derive(ctx.seed, 22, rno);
        let c = gen_case(&mut r, hung_runs < 12);
        let out = run_case(&c, &dir, &ignore_tids);
        let desc = json!({"run": rno, "n": c.n, "par": c.par, "stop_on_error": c.stop_on_error,
            "outcomes": c.outcomes.iter().map(|o| format!("{o:?}")).collect::<Vec<_>>(), "builtin": c.builtin,
            "callback": c.callback, "mode": if c.pool_mode {"WorkerPool::process_jobs"} else {"BatchProcessor::execute"},
            "cancel_at_event": c.cancel_at, "pre_cancel": c.pre_cancel, "failpoint_seed": c.fp_seed});
        let has_panic = c.outcomes.contains(&Outcome::Panic);
        let kind = |i: usize| if c.builtin[i] { "builtin" } else { "custom" };
        let isig = sig_of(&out.evs);
        let nontrivial = c.n >= 2 && c.par >= 2;
        rec.evaluations += 1;
        if nontrivial {
            rec.hashes.insert(isig);
        }
        for e in &out.evs {
            rec.count(&format!("events.{}", e.site));
        }
        if rno < 2 {
            rec.sample(json!({"case": desc, "events": out.evs.iter().filter(|e| e.site != "batch.progress_loop").take(40)
                .map(|e| format!("{}({},{})@t{}", e.site, e.a, e.b, e.tid)).collect::<Vec<_>>()}));
        }
        if out.watchdog {
            rec.inconclusive(format!("wall-clock watchdog expired without a logical-step verdict: {desc}"));
            for e in &out.evs {
                ignore_tids.insert(e.tid);
            }
            hung_runs += 1;
            continue;
        }
        if let Some(h) = &out.hung {
            hung_runs += 1;
            for e in out.evs.iter().filter(|e| e.site == "batch.progress_loop") {
                ignore_tids.insert(e.tid);
            }
            let cls = if has_panic { "after_job_panic" } else { "no_panic" };
            rec.violation(format!("C22|R6|execute_never_returns|progress_thread_spins|{cls}"), h.clone(), desc.clone());
            continue;
        }
        let Some(results) = &out.results else {
            rec.violation("C22|execute_returned_error", "BatchProcessor::execute returned Err", desc.clone());
            continue;
        };
        // ---- event-derived facts
        let mut op_runs: HashMap<u64, u32> = HashMap::new();
        let mut op_called: HashSet<u64> = HashSet::new();
        let mut job_start_pos: HashMap<u64, usize> = HashMap::new();
        let mut first_fail_pos: Option<usize> = None;
        for (pos, e) in out.evs.iter().enumerate() {
            match e.site {
                "h.op_enter" => *op_runs.entry(e.a).or_insert(0) += 1,
                "batch.op_call" => {
                    op_called.insert(e.a);
                    if e.b == 1 {
                        *op_runs.entry(e.a).or_insert(0) += 1;
                    }
                }
                "batch.job_start" => {
                    job_start_pos.entry(e.a).or_insert(pos);
                }
                "batch.recorded_fail" => {
                    if first_fail_pos.is_none() {
                        first_fail_pos = Some(pos);
                    }
                }
                _ => {}
            }
        }
        // R1 exactly one result per job, in submission order
        if results.len() != c.n {
            let cls = if has_panic { "after_job_panic" } else { "no_panic" };
            rec.violation(format!("C22|R1|result_count_differs_from_jobs|{cls}"),
                format!("{} results for {} jobs", results.len(), c.n), desc.clone());
        } else {
            for (i, res) in results.iter().enumerate() {
                let name = match res {
                    JobResult::Success { job_name, .. } | JobResult::Failed { job_name, .. } | JobResult::Cancelled { job_name } => job_name.clone(),
                };
                let want_custom = format!("job-{i}");
                let ok = if c.builtin[i] { name.contains("in.pdf") || name.contains("missing.pdf") || name.to_lowercase().contains("rotate") } else { name.contains(&want_custom) };
                if !ok {
                    rec.violation("C22|R1|results_not_in_submission_order", format!("result {i} is named {name:?}"), desc.clone());
                    break;
                }
            }
        }
        // R2 summary counts
        let succ = results.iter().filter(|r| matches!(r, JobResult::Success { .. })).count();
        let fail = results.iter().filter(|r| matches!(r, JobResult::Failed { .. })).count();
        if let Some((total, s, f, _)) = out.summary {
            if total != c.n || s != succ || f != fail {
                rec.violation("C22|R2|summary_counts_differ_from_results",
                    format!("summary total={total} ok={s} failed={f}; results n={} ok={succ} failed={fail}", results.len()), desc.clone());
            }
        }
        // R3 progress counters
        if let Some((total, comp, failed, running)) = out.final_progress {
            if total != c.n || comp != succ || failed != fail || running != 0 {
                let cls = if has_panic { "after_job_panic" } else { "no_panic" };
                rec.violation(format!("C22|R3|final_progress_inconsistent|{cls}"),
                    format!("progress total={total} completed={comp} failed={failed} running={running}; results ok={succ} failed={fail} of {}", c.n), desc.clone());
            }
        }
        // R4 exactly-once execution and truthful results
        for i in 0..c.n {
            let runs = op_runs.get(&(i as u64)).copied().unwrap_or(0);
            if runs > 1 {
                rec.violation(format!("C22|R4|{}|operation_ran_more_than_once", kind(i)), format!("job {i} ran {runs} times"), desc.clone());
            }
            if results.len() == c.n {
                let good = matches!(results[i], JobResult::Success { .. });
                let failed = matches!(results[i], JobResult::Failed { .. });
                let contradiction = if runs == 0 {
                    good
                } else {
                    match c.outcomes[i] {
                        Outcome::Ok => !good,
                        Outcome::Err | Outcome::Panic => !failed,
                    }
                };
                if contradiction {
                    rec.violation(format!("C22|R4|{}|result_contradicts_operation_outcome", kind(i)),
                        format!("job {i}: operation ran {runs}x with outcome {:?}, reported {:?}", c.outcomes[i], results[i]), desc.clone());
                }
            }
        }
        // R5 stop_on_error
        if c.stop_on_error {
            if let Some(ff) = first_fail_pos {
                rec.count("runs_with_recorded_fail_under_stop_on_error");
                let mut started_after = 0;
                for i in 0..c.n {
                    if let Some(&sp) = job_start_pos.get(&(i as u64)) {
                        if sp > ff {
                            started_after += 1;
                            if op_called.contains(&(i as u64)) {
                                let failing_kind = out.evs[ff].b;
                                rec.violation(
                                    format!("C22|R5|stop_on_error|{}_job_started_after_first_recorded_failure_still_ran|failure_in_{}", kind(i), if failing_kind == 1 { "builtin" } else { "custom" }),
                                    format!("job {i} logged job_start at event {sp}, after the first recorded_fail at event {ff}, and its operation was called"),
                                    desc.clone());
                            }
                        }
                    }
                }
                if started_after > 0 {
                    rec.count("runs_with_jobs_started_after_first_failure");
                }
                first_fail_classes.insert(format!("{}:{}", out.evs[ff].a, started_after));
            }
        }
        if c.cancel_at.is_some() {
            rec.count("runs_with_mid_run_cancellation");
        }
        if has_panic {
            rec.count("runs_with_panicking_job");
        }
    }
    oxidize_pdf::verif_hooks::set_sink(None);
    for cl in first_fail_classes {
        rec.set_add("first_failure_x_started_after", cl);
    }
    let _ = std::fs::remove_dir_all(&dir);
    Ok(())
}
