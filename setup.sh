#!/bin/sh
# Build the harness from files on disk only (offline) and self-test the references.
set -e
cd "$(dirname "$0")"
export CARGO_NET_OFFLINE=true
(cd harness && cargo build --profile verif --offline --bin vh)
python3 -m pyref.selftest
