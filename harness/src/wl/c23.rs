#![allow(deprecated)]
//! C23 — cryptographic building blocks: the library's outputs are logged as
//! (function, inputs, output) tuples; pyref/checks/c23.py recomputes each with
//! the independent implementation.
use crate::rec::hex;
use crate::{Ctx, Recorder, Rng};
use oxidize_pdf::encryption::{
    compute_hash_r6_algorithm_2b, Aes, AesKey, EncryptionKey, OwnerPassword, PermissionFlags, Permissions, Rc4Key,
    StandardSecurityHandler, UserPassword,
};
use oxidize_pdf::objects::ObjectId;
use serde_json::{json, Value};
use std::io::Write;

const PW_POOL: [(&str, &str); 17] = [
    ("empty", ""),
    ("ascii", "userpw"),
    ("ascii", "Owner-Pass 123"),
    ("ascii_32", "abcdefghijklmnopqrstuvwxyz012345"),
    ("ascii_long", "abcdefghijklmnopqrstuvwxyz0123456789ABCDEFGHIJKLMNOPQRSTUVWXYZ-this-is-longer-than-32"),
    ("ascii_127plus", "0123456789012345678901234567890123456789012345678901234567890123456789012345678901234567890123456789012345678901234567890123456789"),
    ("latin1", "contraseña"),
    ("latin1", "dueño_café"),
    ("pdfdoc_only", "prix\u{20AC}\u{2022}"),
    ("bmp", "пароль"),
    ("cjk", "密码密码"),
    ("astral", "pw\u{1F600}key"),
    ("saslprep_changes", "\u{FB01}le\u{00AD}name\u{00A0}x"),
    ("saslprep_changes", "\u{2168}\u{FF21}"),
    // longer than 32 bytes with a multi-byte character straddling byte 32 (x + 15 ñ = 31 bytes, the 16th ñ is bytes 31-32)
    ("nonascii_straddles_byte32", "xññññññññññññññññññññññññ"),
    ("nonascii_straddles_byte32", "漢漢漢漢漢漢漢漢漢漢漢漢漢漢漢漢漢漢漢漢"),
    // longer than 32 bytes with a character boundary exactly at byte 32
    ("nonascii_boundary_at_byte32", "ññññññññññññññññtail-after-32"),
];

fn guard<T>(rec: &mut Recorder, name: &str, f: impl FnOnce() -> T) -> Option<T> {
    match crate::mon::guarded(f) {
        Ok(v) => Some(v),
        Err(p) => {
            rec.violation(format!("C23|panic|{}|{}", name, p.site()), p.message.clone(), json!({"function": name}));
            None
        }
    }
}

pub fn run(ctx: &Ctx, rec: &mut Recorder) -> Result<(), String> {
    let path = ctx.out.join(format!("c23-{}.jsonl", ctx.shard));
    std::fs::create_dir_all(&ctx.out).ok();
    let mut f = std::io::BufWriter::new(std::fs::File::create(&path).map_err(|e| e.to_string())?);
    let mut emit = |v: Value| {
        let _ = writeln!(f, "{}", v);
    };
    let n = ctx.qt(6_000u64, 400_000u64);
    let lens = [0usize, 1, 7, 15, 16, 17, 31, 32, 33, 64, 100, 255, 256, 1000, 4096];
    for c in 0..n {
        if !ctx.mine(c) {
            continue;
        }
        let mut r = Rng::derive(ctx.seed, 23, c);
        rec.evaluations += 1;
        match c % 8 {
            0 => {
                // RC4
                let klen = r.urange(1, 32);
                let key = r.bytes(klen);
                let dlen = if r.chance(1, 30) { 1 << 20 } else { *r.pick(&lens) };
                let data = r.bytes(dlen);
                if let Some(out) = guard(rec, "rc4_encrypt", || oxidize_pdf::encryption::Rc4::new(&Rc4Key::from_slice(&key)).process(&data)) {
                    let back = oxidize_pdf::encryption::Rc4::new(&Rc4Key::from_slice(&key)).process(&out);
                    let big = dlen > 8192;
                    emit(json!({"fn": "rc4", "key": hex(&key), "data": if big { Value::Null } else { json!(hex(&data)) }, "data_seed": [ctx.seed, c], "len": dlen,
                        "out": if big { json!(crate::dump::sha1_hex(&out)) } else { json!(hex(&out)) }, "big": big, "roundtrip": back == data}));
                }
            }
            1 => {
                // AES CBC / ECB
                let k256 = r.bool();
                let key = r.bytes(if k256 { 32 } else { 16 });
                let iv = r.bytes(16);
                let dlen = *r.pick(&lens);
                let data = r.bytes(dlen);
                let mk = || if k256 { AesKey::new_256(key.clone()) } else { AesKey::new_128(key.clone()) };
                let aes = Aes::new(mk().map_err(|e| format!("{e:?}"))?);
                if let Some(res) = guard(rec, "aes_encrypt_cbc", || aes.encrypt_cbc(&data, &iv)) {
                    let out = res.map_err(|e| format!("{e:?}"));
                    let back = out.as_ref().ok().map(|o| aes.decrypt_cbc(o, &iv).map_err(|e| format!("{e:?}")));
                    emit(json!({"fn": "aes_cbc", "key": hex(&key), "iv": hex(&iv), "data": hex(&data), "out": out.as_ref().map(|o| hex(o)).map_err(|e| e.clone()).unwrap_or_else(|e| format!("ERR {e}")),
                        "roundtrip": back.map(|b| b.map(|x| x == data).unwrap_or(false))}));
                }
                let dl16 = (dlen / 16) * 16;
                let d16 = &data[..dl16];
                if let Some(res) = guard(rec, "aes_encrypt_cbc_raw", || aes.encrypt_cbc_raw(d16, &iv)) {
                    let out = res.map_err(|e| format!("{e:?}"));
                    let back = out.as_ref().ok().map(|o| aes.decrypt_cbc_raw(o, &iv).map(|x| x == d16).unwrap_or(false));
                    emit(json!({"fn": "aes_cbc_raw", "key": hex(&key), "iv": hex(&iv), "data": hex(d16), "out": out.map(|o| hex(&o)).unwrap_or_else(|e| format!("ERR {e}")), "roundtrip": back}));
                }
                if let Some(res) = guard(rec, "aes_encrypt_ecb", || aes.encrypt_ecb(d16)) {
                    let out = res.map_err(|e| format!("{e:?}"));
                    emit(json!({"fn": "aes_ecb", "key": hex(&key), "data": hex(d16), "out": out.map(|o| hex(&o)).unwrap_or_else(|e| format!("ERR {e}"))}));
                }
            }
            2 | 3 | 4 => {
                // R2/R3/R4 algorithms 2, 3, 4/5, 6, 7, 1
                let (rev, h) = match c % 8 {
                    2 => (2, StandardSecurityHandler::rc4_40bit()),
                    3 => (3, StandardSecurityHandler::rc4_128bit()),
                    _ => (4, StandardSecurityHandler::aes_128_r4()),
                };
                let (ucls, upw) = *r.pick(&PW_POOL);
                let (ocls, opw) = *r.pick(&PW_POOL);
                let idlen = *r.pick(&[0usize, 1, 16, 16, 16, 32]);
                let fid = r.bytes(idlen);
                let pbits: u32 = if r.chance(1, 3) { r.next_u32() | 0xFFFFF0C0 & !3 } else { Permissions::from_flags(PermissionFlags { print: r.bool(), modify_contents: r.bool(), copy: r.bool(), modify_annotations: r.bool(), fill_forms: r.bool(), accessibility: r.bool(), assemble: r.bool(), print_high_quality: r.bool() }).bits() };
                let perms = Permissions::from_bits(pbits);
                let up = UserPassword(upw.to_string());
                let op = OwnerPassword(opw.to_string());
                let Some(o) = guard(rec, "compute_owner_hash", || h.compute_owner_hash(&op, &up)) else { continue };
                let Some(u) = guard(rec, "compute_user_hash", || h.compute_user_hash(&up, &o, perms, Some(&fid))) else { continue };
                let Some(k) = guard(rec, "compute_encryption_key", || h.compute_encryption_key(&up, &o, perms, Some(&fid))) else { continue };
                let (u, k) = match (u, k) {
                    (Ok(u), Ok(k)) => (u, k),
                    (a, b) => {
                        emit(json!({"fn": "r234", "rev": rev, "error": format!("{:?} / {:?}", a.err().map(|e| e.to_string()), b.err().map(|e| e.to_string()))}));
                        continue;
                    }
                };
                let oid = ObjectId::new(r.below(1 << 24) as u32, r.below(70000) as u16);
                let okey = h.compute_object_key(&k, &oid);
                let vu = h.validate_user_password(&up, &u, &o, perms, Some(&fid)).map_err(|e| e.to_string());
                let vo = h.validate_owner_password(&op, &o, &up, perms, Some(&fid), Some(&u)).map_err(|e| e.to_string());
                let wrong = UserPassword(format!("wrong-{upw}"));
                let vw = h.validate_user_password(&wrong, &u, &o, perms, Some(&fid)).map_err(|e| e.to_string());
                emit(json!({"fn": "r234", "rev": rev, "user_pw": upw, "owner_pw": opw, "ucls": ucls, "ocls": ocls, "file_id": hex(&fid), "P": pbits,
                    "O": hex(&o), "U": hex(&u), "key": hex(&k.key), "obj": [oid.number(), oid.generation()], "objkey": hex(&okey),
                    "validate_user": format!("{vu:?}"), "validate_owner": format!("{vo:?}"), "validate_wrong": format!("{vw:?}")}));
            }
            5 | 6 => {
                // R5 / R6
                let (rev, h) = if c % 8 == 5 { (5, StandardSecurityHandler::aes_256_r5()) } else { (6, StandardSecurityHandler::aes_256_r6()) };
                let (ucls, upw) = *r.pick(&PW_POOL);
                let (ocls, opw) = *r.pick(&PW_POOL);
                let up = UserPassword(upw.to_string());
                let op = OwnerPassword(opw.to_string());
                let key = EncryptionKey { key: r.bytes(32) };
                let res = guard(rec, "r56", || -> Result<Value, String> {
                    let e = |x: oxidize_pdf::error::PdfError| x.to_string();
                    let (u, ue, o, oe, ru, ro, vu, vo, vw);
                    if rev == 5 {
                        u = h.compute_r5_user_hash(&up).map_err(e)?;
                        ue = h.compute_r5_ue_entry(&up, &u, &key).map_err(e)?;
                        o = h.compute_r5_owner_hash(&op, &u).map_err(e)?;
                        oe = h.compute_r5_oe_entry(&op, &o, &u, &key.key).map_err(e)?;
                        ru = h.recover_r5_encryption_key(&up, &u, &ue).map(|k| k.key.clone()).map_err(e)?;
                        ro = h.recover_r5_owner_encryption_key(&op, &o, &u, &oe).map_err(e)?;
                        vu = h.validate_r5_user_password(&up, &u).map_err(e)?;
                        vo = h.validate_r5_owner_password(&op, &o, &u).map_err(e)?;
                        vw = h.validate_r5_user_password(&UserPassword(format!("wrong-{upw}")), &u).map_err(e)?;
                    } else {
                        u = h.compute_r6_user_hash(&up).map_err(e)?;
                        ue = h.compute_r6_ue_entry(&up, &u, &key).map_err(e)?;
                        o = h.compute_r6_owner_hash(&op, &u).map_err(e)?;
                        oe = h.compute_r6_oe_entry(&op, &o, &u, &key.key).map_err(e)?;
                        ru = h.recover_r6_encryption_key(&up, &u, &ue).map(|k| k.key.clone()).map_err(e)?;
                        ro = h.recover_r6_owner_encryption_key(&op, &o, &u, &oe).map_err(e)?;
                        vu = h.validate_r6_user_password(&up, &u).map_err(e)?;
                        vo = h.validate_r6_owner_password(&op, &o, &u).map_err(e)?;
                        vw = h.validate_r6_user_password(&UserPassword(format!("wrong-{upw}")), &u).map_err(e)?;
                    }
                    Ok(json!({"U": hex(&u), "UE": hex(&ue), "O": hex(&o), "OE": hex(&oe), "recovered_user": hex(&ru), "recovered_owner": hex(&ro),
                        "validate_user": vu, "validate_owner": vo, "validate_wrong": vw}))
                });
                let Some(res) = res else { continue };
                let mut rec_line = json!({"fn": "r56", "rev": rev, "user_pw": upw, "owner_pw": opw, "ucls": ucls, "ocls": ocls, "key": hex(&key.key)});
                match res {
                    Ok(v) => {
                        for (k, val) in v.as_object().unwrap() {
                            rec_line[k] = val.clone();
                        }
                    }
                    Err(e) => rec_line["error"] = json!(e),
                }
                if rev == 6 {
                    let pbits = r.next_u32() | 0xFFFFF0C0;
                    let em = r.bool();
                    if let Ok(p) = h.compute_r6_perms_entry(Permissions::from_bits(pbits), &key, em) {
                        rec_line["perms"] = json!({"P": pbits, "em": em, "entry": hex(&p),
                            "validates": format!("{:?}", h.validate_r6_perms(&p, &key, Permissions::from_bits(pbits)).map_err(|e| e.to_string())),
                            "validates_other_P": format!("{:?}", h.validate_r6_perms(&p, &key, Permissions::from_bits(pbits ^ 0x4)).map_err(|e| e.to_string()))});
                    }
                }
                emit(rec_line);
            }
            _ => {
                // Algorithm 2.B directly + Permissions bit positions
                let pl = r.urange(0, 127);
                let pw = r.bytes(pl);
                let salt = r.bytes(8);
                let ud = if r.bool() { r.bytes(48) } else { vec![] };
                if let Some(res) = guard(rec, "compute_hash_r6_algorithm_2b", || compute_hash_r6_algorithm_2b(&pw, &salt, &ud)) {
                    emit(json!({"fn": "alg2b", "pw": hex(&pw), "salt": hex(&salt), "udata": hex(&ud), "out": res.map(|o| hex(&o)).unwrap_or_else(|e| format!("ERR {e}"))}));
                }
                let fl = PermissionFlags { print: r.bool(), modify_contents: r.bool(), copy: r.bool(), modify_annotations: r.bool(), fill_forms: r.bool(), accessibility: r.bool(), assemble: r.bool(), print_high_quality: r.bool() };
                let p = Permissions::from_flags(fl.clone());
                let back = Permissions::from_bits(p.bits());
                emit(json!({"fn": "perms", "flags": [fl.print, fl.modify_contents, fl.copy, fl.modify_annotations, fl.fill_forms, fl.accessibility, fl.assemble, fl.print_high_quality],
                    "bits": p.bits(), "readback": [back.can_print(), back.can_modify_contents(), back.can_copy(), back.can_modify_annotations(), back.can_fill_forms(), back.can_access_for_accessibility(), back.can_assemble(), back.can_print_high_quality()]}));
            }
        }
    }
    Ok(())
}
