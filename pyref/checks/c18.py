"""C18 — page-tree navigation follows document order and inheritance."""
import json, os
from .common import args, rng, load_obs, load_cases
from .. import pdf, pdfgen
from ..pdf import Name, String, Ref, Stream
from ..recpy import Recorder

PRESETS = ["strict", "default", "tolerant", "skip_errors"]


def gen_tree(seed, cno, tier):
    r = rng(seed, "c18", cno)
    family = "wellformed" if cno % 3 != 2 else r.choice(["wrong_count", "shared_leaf", "shared_subtree", "cycle", "wrong_parent"])
    max_depth = r.randint(1, 5 if tier == "quick" else 8)
    max_fan = r.randint(1, 5 if tier == "quick" else 12)
    max_leaves = 40 if tier == "quick" else 400
    w = pdfgen.Writer(version=b"1.7")
    w.begin()
    nxt = [3]
    objs = {}
    leaves = []          # VerifId order = document order

    def alloc():
        n = nxt[0]
        nxt[0] += 1
        return n

    def rnd_box():
        x, y = r.choice([0, 0, 0, 10, -20, 100.5]), r.choice([0, 0, 0, 5, -30, 200.25])
        return [x, y, x + r.choice([200, 595, 612, 841.89, 300.5]), y + r.choice([200, 842, 792, 595.28, 400.25])]

    attrs_pool = ["MediaBox", "CropBox", "Rotate", "Resources"]
    nodes_meta = {}

    def build(num, parent, depth, inh):
        d = {b"Type": Name(b"Pages")}
        if parent is not None:
            d[b"Parent"] = Ref(parent, 0)
        inh = dict(inh)
        for a in attrs_pool:
            p = 0.9 if (parent is None and a == "MediaBox") else 0.25
            if r.random() < p:
                if a in ("MediaBox", "CropBox"):
                    v = rnd_box()
                elif a == "Rotate":
                    v = r.choice([0, 90, 180, 270, 270, 90, -90, 450, 360])
                else:
                    v = {b"VerifRes": String(("res-node%d-%d" % (num, r.randrange(10 ** 6))).encode())}
                d[a.encode()] = v
                inh[a] = v
        kids = []
        nk = r.randint(1, max_fan)
        for _ in range(nk):
            if len(leaves) >= max_leaves:
                break
            k = alloc()
            if depth < max_depth and r.random() < 0.45:
                build(k, num, depth + 1, inh)
            else:
                pd = {b"Type": Name(b"Page"), b"Parent": Ref(num, 0), b"VerifId": len(leaves)}
                pin = dict(inh)
                for a in attrs_pool:
                    p = 1.0 if (a == "MediaBox" and "MediaBox" not in pin) else 0.2
                    if r.random() < p:
                        if a in ("MediaBox", "CropBox"):
                            v = rnd_box()
                        elif a == "Rotate":
                            v = r.choice([0, 90, 180, 270])
                        else:
                            v = {b"VerifRes": String(("res-leaf%d-%d" % (k, r.randrange(10 ** 6))).encode())}
                        pd[a.encode()] = v
                        pin[a] = v
                objs[k] = pd
                leaves.append({"num": k, "id": len(leaves), "inh": pin})
            kids.append(k)
        if not kids:  # keep the tree non-empty
            k = alloc()
            pin = dict(inh)
            pd = {b"Type": Name(b"Page"), b"Parent": Ref(num, 0), b"VerifId": len(leaves)}
            if "MediaBox" not in pin:
                pd[b"MediaBox"] = pin["MediaBox"] = rnd_box()
            objs[k] = pd
            leaves.append({"num": k, "id": len(leaves), "inh": pin})
            kids.append(k)
        nodes_meta[num] = {"kids": kids, "parent": parent}
        d[b"Kids"] = [Ref(k, 0) for k in kids]
        objs[num] = d

    build(2, None, 0, {})

    def count(n):
        if n not in nodes_meta:
            return 1
        return sum(count(k) for k in nodes_meta[n]["kids"])

    for n in nodes_meta:
        objs[n][b"Count"] = count(n)
    detail = None
    inner = [n for n in nodes_meta if n != 2]
    if family == "wrong_count":
        tgt = r.choice(list(nodes_meta))
        true = objs[tgt][b"Count"]
        objs[tgt][b"Count"] = r.choice([0, 1, true + 1, true + 7, max(0, true - 1), 2 ** 31 - 1, -1])
        detail = {"node": tgt, "true": true, "declared": objs[tgt][b"Count"]}
    elif family == "shared_leaf" and len(leaves) >= 2:
        a = r.choice(leaves)["num"]
        host = r.choice(list(nodes_meta))
        objs[host][b"Kids"].insert(r.randrange(len(objs[host][b"Kids"]) + 1), Ref(a, 0))
        detail = {"leaf": a, "also_in": host}
    elif family == "shared_subtree" and inner:
        a = r.choice(inner)
        host = r.choice([n for n in nodes_meta if n != a])
        objs[host][b"Kids"].append(Ref(a, 0))
        detail = {"subtree": a, "also_in": host}
    elif family == "cycle":
        a = r.choice(list(nodes_meta))
        anc = a
        while r.random() < 0.5 and nodes_meta[anc]["parent"] is not None:
            anc = nodes_meta[anc]["parent"]
        objs[a][b"Kids"].insert(r.randrange(len(objs[a][b"Kids"]) + 1), Ref(anc, 0))
        detail = {"node": a, "points_back_to": anc}
    elif family == "wrong_parent":
        a = r.choice(leaves)["num"]
        objs[a][b"Parent"] = Ref(r.choice(list(nodes_meta)), 0)
        detail = {"leaf": a}
    else:
        if family != "wellformed":
            family = "wellformed"
    # indirect /Kids arrays for some nodes
    for n in list(nodes_meta):
        if r.random() < 0.3:
            k = alloc()
            objs[k] = objs[n][b"Kids"]
            objs[n][b"Kids"] = Ref(k, 0)
    w.put(1, 0, {b"Type": Name(b"Catalog"), b"Pages": Ref(2, 0)})
    order = sorted(objs)
    r.shuffle(order)
    for n in order:
        w.put(n, 0, objs[n])
    kind = r.choice(["table", "stream"])
    xn = alloc() if kind == "stream" else None
    w.end(kind, Ref(1, 0), xref_num=xn, first=True)
    model_leaves = []
    for lf in leaves:
        inh = lf["inh"]
        model_leaves.append({"num": lf["num"], "id": lf["id"], "media_box": inh.get("MediaBox"), "crop_box": inh.get("CropBox"),
                             "rotate": inh.get("Rotate", 0), "res": inh["Resources"][b"VerifRes"].v.decode() if "Resources" in inh else None})
    return w.bytes(), family, detail, model_leaves


def phase_gen(out, seed, tier, kv):
    d = os.path.join(out, "cases")
    os.makedirs(d, exist_ok=True)
    n = 1500 if tier == "quick" else 12000
    with open(os.path.join(d, "cases.jsonl"), "w") as f:
        for c in range(n):
            data, family, detail, leaves = gen_tree(seed, c, tier)
            fn = "t%06d.pdf" % c
            open(os.path.join(d, fn), "wb").write(data)
            f.write(json.dumps({"id": "c18-%d" % c, "file": fn, "presets": PRESETS, "pages": True, "max_pages": 500,
                                "family": family, "detail": detail, "leaves": leaves}) + "\n")


def box_eq(a, b):
    return a is not None and b is not None and len(a) == 4 and all(abs(float(x) - float(y)) < 1e-6 for x, y in zip(a, b))


def res_marker(canon):
    if not canon:
        return None
    v = canon.get("d", {}).get(b"VerifRes".hex())
    return bytes.fromhex(v["s"]).decode() if isinstance(v, dict) and "s" in v else None


def cycle_cut_order(data):
    """document-order DFS over the (possibly inconsistent) tree, never entering a node twice"""
    doc = pdf.Document(data)
    order, visited = [], set()

    def walk(ref, depth):
        if depth > 100 or not isinstance(ref, Ref) or ref.num in visited:
            return
        visited.add(ref.num)
        node = doc.resolve(ref)
        if not isinstance(node, dict):
            return
        if b"VerifId" in node:
            order.append(node[b"VerifId"])
            return
        kids = doc.resolve(node.get(b"Kids"))
        for k in kids if isinstance(kids, list) else []:
            walk(k, depth + 1)

    walk(doc.root().get(b"Pages"), 0)
    return order


def phase_check(out, seed, tier, kv):
    rec = Recorder("py")
    d = os.path.join(out, "cases")
    cases = load_cases(d)
    obs = load_obs(out)
    vid_key = b"VerifId".hex()
    for cid, c in cases.items():
        leaves = c["leaves"]
        fam = c["family"]
        data = open(os.path.join(d, c["file"]), "rb").read()
        rec.case(cid, nontrivial=(len(leaves) >= 3))
        rec.set_add("families", fam)
        wit = {"case": cid, "seed": seed, "family": fam, "detail": c["detail"], "file_hex": data.hex() if len(data) < 12000 else None}
        if fam == "wellformed":
            try:
                doc = pdf.Document(data)
                pp = doc.pages()
                ids = [p[1].get(b"VerifId") for p in pp]
                if ids != [l["id"] for l in leaves]:
                    rec.inconc("reference flattening disagrees with generator in %s" % cid)
                    continue
                ok = True
                for (num, pg, inh), l in zip(pp, leaves):
                    if not box_eq(inh.get(b"MediaBox"), l["media_box"]):
                        ok = False
                if not ok:
                    rec.inconc("reference inheritance disagrees with generator in %s" % cid)
                    continue
            except pdf.PdfError as e:
                rec.inconc("reference rejects well-formed tree %s: %s" % (cid, e))
                continue
        for preset, o in obs.get(cid, {}).items():
            rec.count("observations")
            w2 = dict(wit, preset=preset)
            if "panic" in o:
                rec.violation("C18|panic|%s" % o["panic"], "%s %s: %s" % (cid, fam, o.get("panic_msg")), w2)
                continue
            if o.get("open_err"):
                if fam == "wellformed":
                    rec.violation("C18|wellformed_tree_does_not_open|%s" % preset, "%s: %s" % (cid, o["open_err"]), w2)
                continue
            pc = o.get("page_count")
            pages = o.get("pages", [])
            got_ids = []
            for p in pages:
                if isinstance(p, dict) and "dict" in p:
                    v = p["dict"]["d"].get(vid_key)
                    got_ids.append(v["i"] if isinstance(v, dict) and "i" in v else None)
                else:
                    got_ids.append("err")
            if fam == "wellformed":
                if not isinstance(pc, int) or pc != len(leaves):
                    rec.violation("C18|wellformed|page_count_differs_from_leaf_count", "%s preset %s: page_count=%r, tree has %d leaves" % (cid, preset, pc, len(leaves)), w2)
                    continue
                if got_ids != [l["id"] for l in leaves]:
                    first = next((i for i, (a, b) in enumerate(zip(got_ids, [l["id"] for l in leaves])) if a != b), None)
                    rec.violation("C18|wellformed|get_page_not_in_document_order", "%s preset %s: index %s returns page id %s (sequence %s...)" % (cid, preset, first, got_ids[first] if first is not None else None, got_ids[:12]), w2)
                    continue
                for i, (p, l) in enumerate(zip(pages, leaves)):
                    if not box_eq(p["media_box"], l["media_box"]):
                        rec.violation("C18|inheritance|MediaBox_not_from_nearest_ancestor", "%s preset %s page %d: media_box %s, nearest ancestor says %s" % (cid, preset, i, p["media_box"], l["media_box"]), w2)
                    if l["crop_box"] is not None and not box_eq(p["crop_box"], l["crop_box"]):
                        rec.violation("C18|inheritance|CropBox_not_from_nearest_ancestor", "%s preset %s page %d: crop_box %s, nearest ancestor says %s" % (cid, preset, i, p["crop_box"], l["crop_box"]), w2)
                    if l["crop_box"] is None and p["crop_box"] is not None and not box_eq(p["crop_box"], l["media_box"]):
                        rec.violation("C18|inheritance|CropBox_invented", "%s preset %s page %d: crop_box %s but no ancestor sets one" % (cid, preset, i, p["crop_box"]), w2)
                    if (p["rotation"] - l["rotate"]) % 360 != 0:
                        rec.violation("C18|inheritance|Rotate_not_from_nearest_ancestor", "%s preset %s page %d: rotation %s, nearest ancestor says %s" % (cid, preset, i, p["rotation"], l["rotate"]), w2)
                    if res_marker(p.get("resources")) != l["res"]:
                        rec.violation("C18|inheritance|Resources_not_from_nearest_ancestor", "%s preset %s page %d: resources marker %s, nearest ancestor says %s" % (cid, preset, i, res_marker(p.get("resources")), l["res"]), w2)
            else:
                # inconsistent tree: anything returned must respect the cycle-cut document order
                ids = [g for g in got_ids if g != "err"]
                if any(g is None for g in ids):
                    rec.violation("C18|inconsistent|non_leaf_returned_as_page|%s" % fam, "%s preset %s: a returned page has no VerifId (an intermediate node?) ids=%s" % (cid, preset, got_ids[:12]), w2)
                    continue
                if fam in ("wrong_count", "wrong_parent"):
                    # /Kids structure is intact, so document order is unambiguous: whatever is
                    # returned at index i must be leaf i (errors / shorter lists are accepted)
                    for i, g in enumerate(got_ids):
                        if g != "err" and g != i:
                            rec.violation("C18|inconsistent|wrong_page_at_index|%s" % fam, "%s preset %s: index %d returns page id %s (%s)" % (cid, preset, i, g, c["detail"]), w2)
                            break
                else:
                    # shared kids / cycles: where a reader cuts is its own policy; only demand that
                    # every returned page is a real leaf and the run ended (no hang, no panic)
                    known = {l["id"] for l in leaves}
                    if any(g not in known for g in ids):
                        rec.violation("C18|inconsistent|unknown_page_returned|%s" % fam, "%s preset %s: ids %s" % (cid, preset, got_ids[:16]), w2)
                if isinstance(pc, int) and pc > 100000:
                    rec.count("huge_page_count_reported")
        if len(rec.samples) < 3:
            rec.sample({"case": cid, "family": fam, "detail": c["detail"], "leaves": len(leaves), "first_leaf": leaves[0]})
    rec.write(out)


if __name__ == "__main__":
    out, seed, tier, kv = args()
    (phase_gen if kv.get("phase") == "gen" else phase_check)(out, seed, tier, kv)
