use oxidize_pdf::parser::{ParseOptions, PdfReader};
use std::io::Cursor;
fn main() {
    let bytes = std::fs::read(std::env::args().nth(1).unwrap()).unwrap();
    let t = std::time::Instant::now();
    eprintln!("opening");
    let r = PdfReader::new(Cursor::new(bytes.clone()));
    eprintln!("open -> {:?} in {:?}", r.as_ref().map(|_| ()).map_err(|e| e.to_string()), t.elapsed());
    if let Ok(mut r) = r {
        eprintln!("catalog {:?}", r.catalog().map(|c| c.0.len()).map_err(|e| e.to_string()));
        eprintln!("page_count {:?} {:?}", r.page_count().map_err(|e| e.to_string()), t.elapsed());
        let doc_bytes = bytes.clone();
        let d = PdfReader::new(Cursor::new(doc_bytes)).unwrap().into_document();
        for i in 0..2 { eprintln!("get_page({i})..."); let p = d.get_page(i); eprintln!(" -> {:?} {:?}", p.as_ref().map(|_| ()).map_err(|e| e.to_string()), t.elapsed()); }
        let n = r.trailer().size().unwrap_or(0).min(64);
        for i in 1..=n { let x = r.get_object(i, 0).map(|_| ()).map_err(|e| e.to_string()); eprintln!("obj {i} {:?} {:?}", x, t.elapsed()); }
    }
}
