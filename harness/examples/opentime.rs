use oxidize_pdf::parser::{ParseOptions, PdfReader};
use std::io::Cursor;
fn main() {
    let bytes = std::fs::read(std::env::args().nth(1).unwrap()).unwrap();
    let t = std::time::Instant::now();
    let mut r = PdfReader::new_with_options(Cursor::new(bytes.clone()), ParseOptions::strict()).unwrap();
    println!("open {:?}", t.elapsed());
    let t = std::time::Instant::now();
    println!("pages {:?} {:?}", r.page_count(), t.elapsed());
    let t = std::time::Instant::now();
    for i in 1..60u32 { let _ = r.get_object(i, 0); }
    println!("60 objects {:?}", t.elapsed());
    let t = std::time::Instant::now();
    for i in 100..140u32 { let _ = r.get_object(i, 0); }
    println!("40 missing objects {:?}", t.elapsed());
}
