//! A minimal PDF file builder that owes nothing to the library's writer: numbered
//! objects, uncompressed streams, a classic cross-reference table.
pub struct RawPdf {
    objs: Vec<Option<Vec<u8>>>,
}

impl RawPdf {
    pub fn new() -> Self {
        RawPdf { objs: Vec::new() }
    }
    /// reserve an object number to be filled later
    pub fn reserve(&mut self) -> u32 {
        self.objs.push(None);
        self.objs.len() as u32
    }
    pub fn set(&mut self, num: u32, body: Vec<u8>) {
        self.objs[num as usize - 1] = Some(body);
    }
    pub fn add(&mut self, body: impl Into<Vec<u8>>) -> u32 {
        self.objs.push(Some(body.into()));
        self.objs.len() as u32
    }
    pub fn add_stream(&mut self, dict_entries: &str, data: &[u8]) -> u32 {
        let b = Self::stream_body(dict_entries, data);
        self.add(b)
    }
    pub fn stream_body(dict_entries: &str, data: &[u8]) -> Vec<u8> {
        let mut b = format!("<< {dict_entries} /Length {} >>\nstream\n", data.len()).into_bytes();
        b.extend_from_slice(data);
        b.extend_from_slice(b"\nendstream");
        b
    }
    pub fn finish(&self, root: u32) -> Vec<u8> {
        let mut out = b"%PDF-1.7\n%\xE2\xE3\xCF\xD3\n".to_vec();
        let mut offs = Vec::new();
        for (i, o) in self.objs.iter().enumerate() {
            offs.push(out.len());
            out.extend_from_slice(format!("{} 0 obj\n", i + 1).as_bytes());
            out.extend_from_slice(o.as_deref().unwrap_or(b"null"));
            out.extend_from_slice(b"\nendobj\n");
        }
        let xref = out.len();
        out.extend_from_slice(format!("xref\n0 {}\n0000000000 65535 f \n", self.objs.len() + 1).as_bytes());
        for o in offs {
            out.extend_from_slice(format!("{o:010} 00000 n \n").as_bytes());
        }
        out.extend_from_slice(format!("trailer\n<< /Size {} /Root {root} 0 R >>\nstartxref\n{xref}\n%%EOF\n", self.objs.len() + 1).as_bytes());
        out
    }
}
