"""C20 cross-process stage: the same (program, configuration) serialised by two different
processes must hash identically."""
import glob, json, os
from .common import args
from ..recpy import Recorder


def main():
    out, seed, tier, kv = args()
    rec = Recorder("py")
    seen = {}
    for fn in sorted(glob.glob(os.path.join(out, "c20-*.jsonl"))):
        for line in open(fn):
            d = json.loads(line)
            seen.setdefault(d["id"], []).append(d)
    pairs = 0
    for k, lst in seen.items():
        shards = {d["shard"] for d in lst}
        if len(shards) >= 2:
            pairs += 1
            if len({d["sha"] for d in lst}) > 1:
                cc = lst[0]["config"].rsplit("|", 1)[0]
                rec.violation("C20|two_processes_serialise_differently|%s" % cc, "%s: %r" % (k, [(d["shard"], d["sha"][:12], d["len"]) for d in lst]), {"id": k, "seed": seed})
    rec.count("cross_process_pairs_compared", pairs)
    rec.write(out)


if __name__ == "__main__":
    main()
