"""C28 — outlines and destinations written are navigable as authored."""
import json, os
from multiprocessing import Pool
from .common import args, load_obs
from .docchecks import load_doc_cases, cfgclass
from .. import pdf
from ..pdf import Name, String, Ref, Stream, PdfError
from ..recpy import Recorder


def visible_desc(item):
    """number of descendants visible when the item itself is shown (open items expose their kids)"""
    n = 0
    for k in item["kids"]:
        n += 1
        if not k["closed"]:
            n += visible_desc(k)
    return n


def expected_count(item):
    """/Count of an item: visible descendants if open, negative if closed; absent/0 when no kids"""
    if not item["kids"]:
        return 0
    n = 0
    for k in item["kids"]:
        n += 1
        if not k["closed"]:
            n += visible_desc(k)
    return -n if item["closed"] else n


def name_tree_lookup(doc, node, depth=0):
    res = {}
    node = doc.resolve(node)
    if not isinstance(node, dict) or depth > 20:
        return res
    names = doc.resolve(node.get(b"Names"))
    if isinstance(names, list):
        for i in range(0, len(names) - 1, 2):
            k = doc.resolve(names[i])
            res[k.v if isinstance(k, String) else None] = names[i + 1]
    for kid in doc.resolve(node.get(b"Kids")) or []:
        res.update(name_tree_lookup(doc, kid, depth + 1))
    return res


def analyse(job):
    d, c = job
    out = []
    wit = {"case": c["id"], "config": c["config"], "program_file": c["program_file"]}
    model = c["model"]
    stats = {"items": 0, "named": 0}
    data = open(os.path.join(d, c["file"]), "rb").read()
    try:
        doc = pdf.Document(data, password=(c.get("password") or "").encode("utf-8") if c.get("enc") else None)
        pages = doc.pages()
        page_nums = [p[0] for p in pages]
        root_ref = doc.root().get(b"Outlines")
        root = doc.resolve(root_ref)

        def dest_page(dest):
            dest = doc.resolve(dest)
            if isinstance(dest, dict):
                dest = doc.resolve(dest.get(b"D"))
            if isinstance(dest, list) and dest and isinstance(dest[0], Ref):
                return page_nums.index(dest[0].num) if dest[0].num in page_nums else ("not_a_page", dest[0].num)
            if isinstance(dest, list) and dest and isinstance(dest[0], int):
                return ("page_index_integer", dest[0])
            return ("unresolvable", repr(dest)[:40])

        def check_level(parent_ref, parent_dict, items, level):
            # walk /First .. /Next
            refs = []
            ref = parent_dict.get(b"First")
            prev = None
            guard = 0
            while isinstance(ref, Ref) and guard < 1000:
                guard += 1
                it = doc.resolve(ref)
                if not isinstance(it, dict):
                    out.append(("C28|links|item_not_a_dictionary", "%s: level %d" % (c["id"], level), wit)); return
                if it.get(b"Parent") != parent_ref:
                    out.append(("C28|links|Parent_wrong", "%s: item %r /Parent %r, expected %r" % (c["id"], ref, it.get(b"Parent"), parent_ref), wit))
                if it.get(b"Prev") != prev:
                    out.append(("C28|links|Prev_wrong", "%s: item %r /Prev %r, expected %r" % (c["id"], ref, it.get(b"Prev"), prev), wit))
                refs.append((ref, it))
                prev = ref
                ref = it.get(b"Next")
            if len(refs) != len(items):
                out.append(("C28|links|sibling_count", "%s: level %d has %d items through /First../Next, authored %d" % (c["id"], level, len(refs), len(items)), wit)); return
            if refs and parent_dict.get(b"Last") != refs[-1][0]:
                out.append(("C28|links|Last_wrong", "%s: /Last %r, last sibling %r" % (c["id"], parent_dict.get(b"Last"), refs[-1][0]), wit))
            if not refs and (b"First" in parent_dict or b"Last" in parent_dict):
                out.append(("C28|links|First_or_Last_on_childless_item", "%s" % c["id"], wit))
            for (ref, it), m in zip(refs, items):
                stats["items"] += 1
                t = doc.resolve(it.get(b"Title"))
                if not isinstance(t, String) or pdf.text_string(t.v) != m["title"]:
                    out.append(("C28|title_differs", "%s: %r vs authored %r" % (c["id"], t, m["title"]), wit))
                cnt = it.get(b"Count", 0)
                want = expected_count(m)
                if cnt != want:
                    kind = "closed_item" if m["closed"] else "open_item"
                    out.append(("C28|Count|%s|%s" % (kind, "sign_wrong" if abs(cnt) == abs(want) else "value_wrong"), "%s: item %r /Count %r, expected %r (closed=%s, kids=%d)" % (c["id"], m["title"], cnt, want, m["closed"], len(m["kids"])), wit))
                dp = dest_page(it.get(b"Dest") if b"Dest" in it else it.get(b"A"))
                if dp != m["page"]:
                    out.append(("C28|destination|%s" % ("resolves_to_wrong_page" if isinstance(dp, int) else dp[0]), "%s: item %r resolves to %r, authored page %d (%s)" % (c["id"], m["title"], dp, m["page"], m["dest"]), wit))
                check_level(ref, it, m["kids"], level + 1)

        if model["outline"]:
            if not isinstance(root, dict):
                out.append(("C28|outline_root_missing", "%s" % c["id"], wit))
            else:
                check_level(root_ref, root, model["outline"], 0)
                want_root = sum(1 + (visible_desc(m) if not m["closed"] else 0) for m in model["outline"])
                if root.get(b"Count", 0) != want_root:
                    out.append(("C28|Count|root", "%s: root /Count %r, expected %d" % (c["id"], root.get(b"Count"), want_root), wit))
        if model["named"]:
            names = doc.resolve(doc.root().get(b"Names"))
            dests = name_tree_lookup(doc, names.get(b"Dests")) if isinstance(names, dict) else {}
            if not dests:
                old = doc.resolve(doc.root().get(b"Dests"))
                if isinstance(old, dict):
                    dests = {k: v for k, v in old.items()}
            for nd in model["named"]:
                stats["named"] += 1
                v = dests.get(nd["name"].encode())
                if v is None:
                    out.append(("C28|named_destination|missing", "%s: name %r not in the name tree (%d names found)" % (c["id"], nd["name"], len(dests)), wit))
                    continue
                dp = dest_page(v)
                if dp != nd["page"]:
                    out.append(("C28|named_destination|%s" % ("resolves_to_wrong_page" if isinstance(dp, int) else dp[0]), "%s: name %r resolves to %r, authored page %d" % (c["id"], nd["name"], dp, nd["page"]), wit))
    except PdfError as e:
        out.append(("C28|independent_reader_rejects_file|%s" % cfgclass(c), "%s: %s" % (c["id"], e), wit))
    except Exception as e:
        out.append(("inconc", "%s: %s: %s" % (c["id"], type(e).__name__, e), None))
    return out, stats


def main():
    out, seed, tier, kv = args()
    rec = Recorder("py")
    d = os.path.join(out, "cases")
    cases = [c for c in load_doc_cases(d) if "write_error" not in c]
    jobs = [(d, c) for c in cases]
    with Pool(min(16, os.cpu_count() or 4)) as pool:
        for c, (viol, stats) in zip(cases, pool.imap(analyse, jobs, chunksize=8)):
            rec.case(c["id"], nontrivial=bool(c["model"]["outline"]) or bool(c["model"]["named"]))
            rec.count("outline_items_checked", stats["items"])
            rec.count("named_destinations_checked", stats["named"])
            for sig, detail, wit in viol:
                if sig == "inconc":
                    rec.inconc(detail)
                else:
                    rec.violation(sig, detail, wit)
            if len(rec.samples) < 3 and c["model"]["outline"]:
                rec.sample({"case": c["id"], "outline": c["model"]["outline"][:1], "named": c["model"]["named"][:3]})
    rec.write(out)


if __name__ == "__main__":
    main()
