"""Reference page-label formatter, ISO 32000-1 §12.4.2 Table 159."""

def roman(n, upper):
    if n <= 0:
        return ""
    vals = [(1000, "m"), (900, "cm"), (500, "d"), (400, "cd"), (100, "c"), (90, "xc"), (50, "l"), (40, "xl"),
            (10, "x"), (9, "ix"), (5, "v"), (4, "iv"), (1, "i")]
    out = []
    for v, s in vals:
        q, n = divmod(n, v)
        out.append(s * q)
    s = "".join(out)
    return s.upper() if upper else s

def letters(n, upper):
    """A..Z for 1..26, AA..ZZ for 27..52, AAA..ZZZ for 53..78, ..."""
    if n <= 0:
        return ""
    ch = chr((ord("A") if upper else ord("a")) + (n - 1) % 26)
    return ch * ((n - 1) // 26 + 1)

def fmt(style, n):
    if style == "D":
        return str(n)
    if style == "R":
        return roman(n, True)
    if style == "r":
        return roman(n, False)
    if style == "A":
        return letters(n, True)
    if style == "a":
        return letters(n, False)
    return ""

def label(ranges, index):
    """ranges: list of dict(page,style,start,prefix) -- later add_range of the same page replaces."""
    by_page = {}
    for r in ranges:
        by_page[r["page"]] = r
    best = None
    for p in sorted(by_page):
        if p <= index:
            best = by_page[p]
    if best is None:
        return None
    s = best["prefix"] or ""
    if best["style"] != "-":
        s += fmt(best["style"], best["start"] + (index - best["page"]))
    return s

def selftest():
    errs = []
    vec = [("A", 1, "A"), ("A", 26, "Z"), ("A", 27, "AA"), ("A", 28, "BB"), ("A", 52, "ZZ"), ("A", 53, "AAA"),
           ("a", 703, "a" * 28), ("R", 4, "IV"), ("R", 1994, "MCMXCIV"), ("r", 3999, "mmmcmxcix"), ("D", 10, "10")]
    for st, n, want in vec:
        if fmt(st, n) != want:
            errs.append((st, n, fmt(st, n), want))
    return errs
