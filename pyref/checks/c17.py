"""C17 — incremental updates are append-only and take effect. Every revision of a history is read with
the independent reader: the new file must start with the previous bytes, its revision chain must parse
and validate, the edited values must be the ones read back (by pyref and by the library's own reader,
whose view the Rust stage recorded), and no object outside the edit's change set may differ."""
import os
from multiprocessing import Pool
from .. import pdf
from ..pdf import Name, Ref, Stream, String, PdfError
from ..validate import validate
from .common import args
from .docchecks import load_doc_cases
from ..recpy import Recorder


def field_by_name(doc, fq):
    acro = doc.resolve(doc.root().get(b"AcroForm"))
    kids = doc.resolve(acro.get(b"Fields")) if isinstance(acro, dict) else None
    found = None
    for part in fq.split("."):
        nxt = None
        for k in kids or []:
            d = doc.resolve(k)
            if isinstance(d, dict) and isinstance(d.get(b"T"), String) and pdf.text_string(d[b"T"].v) == part:
                nxt = (k, d)
                break
        if nxt is None:
            return None
        found = nxt
        kids = doc.resolve(nxt[1].get(b"Kids"))
    return found


def text_notes(doc):
    """{obj num: (page index, contents, rect)} for /Text annotations reachable from the pages"""
    res = {}
    for pi, (_, page, _) in enumerate(doc.pages()):
        for a in doc.resolve(page.get(b"Annots")) or []:
            d = doc.resolve(a)
            if isinstance(d, dict) and d.get(b"Subtype") == Name(b"Text") and isinstance(a, Ref):
                c = doc.resolve(d.get(b"Contents"))
                rect = doc.resolve(d.get(b"Rect"))
                res[a.num] = (pi, pdf.text_string(c.v) if isinstance(c, String) else None, [float(x) for x in rect] if isinstance(rect, list) else None)
    return res


def changeable(o, kind):
    """objects an edit of this kind may legitimately rewrite"""
    d = o.dict if isinstance(o, Stream) else o
    if not isinstance(d, dict):
        return isinstance(o, list) and kind == "notes"  # an indirect /Annots array
    t, st = d.get(b"Type"), d.get(b"Subtype")
    if kind == "notes":
        return t == Name(b"Page") or st == Name(b"Text") or st == Name(b"Popup")
    # form filling: fields, widgets, their appearance streams, the AcroForm dictionary, the catalog
    return b"T" in d or b"FT" in d or st == Name(b"Widget") or st == Name(b"Form") or b"Fields" in d or t == Name(b"Catalog")


def analyse(job):
    d, c = job
    out, stats = [], {"revisions": 0, "objects_compared": 0, "values": 0, "refused": 0}
    layout = c["layout"]
    prev_bytes = open(os.path.join(d, c["base"]), "rb").read()
    try:
        prev = pdf.Document(prev_bytes, strict=True)
    except Exception as e:
        return [("inconc", "base unreadable: %r" % (e,), None)], stats
    for ed in c["edits"]:
        kind = ed.get("kind", "?")
        k2 = "notes" if kind == "notes" else "fill"
        wit = {"case": c["case"], "seed": c["seed"], "layout": layout, "edit": {k: v for k, v in ed.items() if k not in ("lib_values", "lib_notes_after", "notes_before")}, "base": c["base"]}
        if "error" in ed:
            if ed["error"].startswith("PANIC"):
                break  # reported by the Rust stage
            # an edit the library refuses with an error changes nothing: acceptable, counted
            stats["refused"] = stats.get("refused", 0) + 1
            break
        new_bytes = open(os.path.join(d, ed["rev"]), "rb").read()
        stats["revisions"] += 1
        if not new_bytes.startswith(prev_bytes) or len(new_bytes) <= len(prev_bytes):
            out.append(("C17|%s|not_append_only|%s" % (k2, layout), "the new revision does not start with the previous %d bytes" % len(prev_bytes), wit))
            break
        try:
            probs, _ = validate(new_bytes)
            new = pdf.Document(new_bytes, strict=True)
        except Exception as e:
            probs, new = [("reader_raised", repr(e))], None
        if probs or new is None:
            out.append(("C17|%s|revision_invalid_for_independent_reader|%s" % (k2, layout), "; ".join(str(p) for p in probs)[:300], wit))
            break
        # ---- the edit took effect
        bad = False
        if k2 == "fill":
            for fd, lv in zip(ed["fields"], ed.get("lib_values", [])):
                stats["values"] += 1
                cls = fd["class"]
                hit = field_by_name(new, fd["name"])
                v = new.resolve(hit[1].get(b"V")) if hit else None
                got = pdf.text_string(v.v) if isinstance(v, String) else None
                if got != fd["value"]:
                    out.append(("C17|fill|value_read_by_independent_reader_differs|%s|%s" % (cls, layout), "field %s: wrote %r, /V reads %r (raw %r)" % (fd["name"], fd["value"], got, v.v[:60] if isinstance(v, String) else v), wit)); bad = True; break
                if lv.get("text") != fd["value"]:
                    out.append(("C17|fill|value_read_by_library_differs|%s|%s" % (cls, layout), "field %s: wrote %r, library reads %r" % (fd["name"], fd["value"], lv), wit)); bad = True; break
        else:
            before = text_notes(prev)
            want = {k: (v[0], v[1], v[2][:2] if v[2] else None) for k, v in before.items()}
            added = list(ed.get("added", []))
            for m in ed["mutations"]:
                if "add" in m:
                    a = added.pop(0) if added else None
                    if a is None:
                        out.append(("C17|notes|added_note_not_reported|%s" % layout, repr(m), wit)); bad = True; break
                    want[a["obj"]] = (m["add"]["page"], m["add"]["contents"], m["add"]["pos"])
                elif "update" in m:
                    o = m["update"]["obj"]
                    want[o] = (want.get(o, (None,))[0], m["update"]["contents"], m["update"]["pos"])
                else:
                    want.pop(m["remove"]["obj"], None)
            if bad:
                break
            after = text_notes(new)
            libn = {n["obj"]: n for n in ed["lib_notes_after"]} if isinstance(ed.get("lib_notes_after"), list) else None
            for o, (pg, contents, pos) in want.items():
                stats["values"] += 1
                g = after.get(o)
                if g is None:
                    out.append(("C17|notes|note_missing_after_edit|%s" % layout, "note %d absent from the page annotations" % o, wit)); bad = True; break
                if g[0] != pg or g[1] != contents:
                    cls = next((m[k]["class"] for m in ed["mutations"] for k in m if k != "remove" and m[k].get("contents") == contents), "unchanged_note")
                    out.append(("C17|notes|contents_read_by_independent_reader_differ|%s|%s" % (cls, layout), "note %d: expected page %r %r, found page %r %r" % (o, pg, contents, g[0], g[1]), wit)); bad = True; break
                if pos and g[2] and not (abs(g[2][0] - pos[0]) < 0.01 and (abs(g[2][1] - pos[1]) < 0.01 or abs(g[2][3] - pos[1]) < 0.01)):
                    out.append(("C17|notes|position_differs|%s" % layout, "note %d: expected %r, /Rect %r" % (o, pos, g[2]), wit)); bad = True; break
                if libn is not None and (o not in libn or libn[o]["contents"] != contents):
                    out.append(("C17|notes|contents_read_by_library_differ|%s" % layout, "note %d: expected %r, library lists %r" % (o, contents, libn.get(o)), wit)); bad = True; break
            if not bad:
                extra = set(after) - set(want)
                if extra:
                    out.append(("C17|notes|removed_or_unknown_note_still_listed|%s" % layout, "notes %r" % sorted(extra), wit)); bad = True
        if bad:
            break
        # ---- nothing else changed
        for num in sorted(prev.xref):
            try:
                a = prev.get(num)
            except Exception:
                continue
            if a is None:
                continue
            stats["objects_compared"] += 1
            try:
                b = new.get(num)
            except Exception as e:
                out.append(("C17|%s|object_unreadable_after_edit|%s" % (k2, layout), "object %d: %r" % (num, e), wit)); bad = True; break
            if pdf.canon(a, prev) != pdf.canon(b, new) and not (changeable(a, k2) or changeable(b, k2)):
                out.append(("C17|%s|untouched_object_changed|%s" % (k2, layout), "object %d: %r -> %r" % (num, a, b), wit)); bad = True; break
        if bad:
            break
        prev_bytes, prev = new_bytes, new
    return out, stats


def main():
    out, seed, tier, kv = args()
    rec = Recorder("py")
    d = os.path.join(out, "cases")
    cases = load_doc_cases(d)
    with Pool(min(16, os.cpu_count() or 4)) as pool:
        for c, (viol, stats) in zip(cases, pool.imap(analyse, [(d, c) for c in cases], chunksize=4)):
            rec.case(c["id"], stats["revisions"] > 0)
            for k, v in stats.items():
                rec.count(k, v)
            for sig, detail, wit in viol:
                if sig == "inconc":
                    rec.inconc(detail)
                else:
                    rec.violation(sig, detail, wit)
    rec.write(out)


if __name__ == "__main__":
    main()
