//! C27 — page labels. The harness drives PageLabelTree / PageLabel with
//! generated range sets and indices and logs (ranges, index, label); the
//! reference formatter is pyref/labels.py (checker pyref/checks/c27.py).
use crate::{Ctx, Recorder, Rng};
use oxidize_pdf::page_labels::{PageLabel, PageLabelStyle, PageLabelTree};
use serde_json::json;
use std::io::Write;

const STYLES: [(&str, PageLabelStyle); 6] = [
    ("D", PageLabelStyle::DecimalArabic),
    ("R", PageLabelStyle::UppercaseRoman),
    ("r", PageLabelStyle::LowercaseRoman),
    ("A", PageLabelStyle::UppercaseLetters),
    ("a", PageLabelStyle::LowercaseLetters),
    ("-", PageLabelStyle::None),
];
const STARTS: [u32; 16] = [1, 2, 3, 9, 25, 26, 27, 28, 52, 53, 54, 702, 703, 704, 3999, 4000];
const BIG_STARTS: [u32; 4] = [0, 1 << 31, u32::MAX - 1, u32::MAX];

pub fn run(ctx: &Ctx, rec: &mut Recorder) -> Result<(), String> {
    let path = ctx.out.join(format!("c27-{}.jsonl", ctx.shard));
    std::fs::create_dir_all(&ctx.out).ok();
    let mut f = std::io::BufWriter::new(std::fs::File::create(&path).map_err(|e| e.to_string())?);
    // (1) exhaustive: every style, numbers 1..=N through a single-range tree
    let n_exh = ctx.qt(3_000u32, 20_000u32);
    for (si, (sname, style)) in STYLES.iter().enumerate() {
        if si % ctx.nshards != ctx.shard {
            continue;
        }
        let mut tree = PageLabelTree::new();
        tree.add_range(0, PageLabel::new(*style).starting_at(1));
        let mut labels = Vec::with_capacity(n_exh as usize);
        for i in 0..n_exh {
            match crate::mon::guarded(|| tree.get_label(i)) {
                Ok(l) => labels.push(json!(l)),
                Err(p) => {
                    rec.violation(format!("C27|panic|{}", p.site()), p.message.clone(), json!({"style": sname, "index": i}));
                    labels.push(json!(null));
                }
            }
            rec.evaluations += 1;
        }
        writeln!(f, "{}", json!({"kind": "exhaustive", "style": sname, "n": n_exh, "labels": labels})).ok();
    }
    // (2) random range sets
    let ncases = ctx.qt(20_000u64, 400_000u64);
    for c in 0..ncases {
        if !ctx.mine(c) {
            continue;
        }
        let mut r = Rng::derive(ctx.seed, 27, c);
        let nr = r.urange(1, 6);
        let mut tree = PageLabelTree::new();
        let mut ranges = Vec::new();
        let mut page = if r.chance(1, 4) { r.urange(0, 5) as u32 } else { 0 };
        for _ in 0..nr {
            let (sname, style) = *r.pick(&STYLES);
            // Roman numerals grow by one 'm' per 1000 and letters by one per 26: keep
            // those starts modest (labels would run to megabytes); decimal/none get the extremes
            let small_only = sname != "D" && sname != "-";
            let start = if r.chance(1, 12) && !small_only { *r.pick(&BIG_STARTS) } else if r.chance(2, 3) { *r.pick(&STARTS) } else { r.urange(1, 5000) as u32 };
            let prefix: Option<String> = match r.below(4) {
                0 => Some(format!("P{}-", r.below(100))),
                1 => Some("App. ".to_string()),
                _ => None,
            };
            let mut label = PageLabel::new(style).starting_at(start);
            if let Some(p) = &prefix {
                label = label.with_prefix(p.clone());
            }
            tree.add_range(page, label);
            ranges.push(json!({"page": page, "style": sname, "start": start, "prefix": prefix}));
            page += r.urange(1, 40) as u32;
        }
        // indices: around each boundary and a few random
        let mut idx: Vec<u32> = Vec::new();
        for rg in &ranges {
            let p = rg["page"].as_u64().unwrap() as u32;
            idx.extend([p.saturating_sub(1), p, p + 1, p + 25, p + 26, p + 27]);
        }
        for _ in 0..4 {
            idx.push(r.below(page as u64 + 800) as u32);
        }
        idx.sort();
        idx.dedup();
        let mut got = Vec::new();
        for &i in &idx {
            match crate::mon::guarded(|| tree.get_label(i)) {
                Ok(l) => got.push(json!([i, l])),
                Err(p) => got.push(json!([i, {"panic": p.site(), "msg": p.message}])),
            }
            rec.evaluations += 1;
        }
        // the tree as it is written into a document (/PageLabels number tree): [page, /S, /P, /St] per entry
        let written = match crate::mon::guarded(|| tree.to_dict()) {
            Ok(d) => {
                let mut v = Vec::new();
                if let Some(oxidize_pdf::objects::Object::Array(nums)) = d.get("Nums") {
                    for pair in nums.chunks(2) {
                        if let [oxidize_pdf::objects::Object::Integer(pg), oxidize_pdf::objects::Object::Dictionary(ld)] = pair {
                            let sname = match ld.get("S") { Some(oxidize_pdf::objects::Object::Name(n)) => json!(n), _ => json!(null) };
                            let prefix = match ld.get("P") { Some(oxidize_pdf::objects::Object::String(p)) => json!(p), _ => json!(null) };
                            let start = match ld.get("St") { Some(oxidize_pdf::objects::Object::Integer(n)) => json!(n), _ => json!(null) };
                            v.push(json!([pg, sname, prefix, start]));
                        } else {
                            v.push(json!({"malformed": format!("{pair:?}")}));
                        }
                    }
                    json!(v)
                } else {
                    json!({"no_nums": true})
                }
            }
            Err(p) => json!({"panic": p.site(), "msg": p.message}),
        };
        let line = json!({"kind": "tree", "case": c, "ranges": ranges, "got": got, "written": written});
        if c < 3 {
            rec.sample(line.clone());
        }
        writeln!(f, "{}", line).ok();
    }
    Ok(())
}
