//! `vh run <ID> --seed S --tier quick|thorough --shard i/n --out DIR [--arg k=v]...`
use std::collections::BTreeMap;
use std::path::PathBuf;
use vh::{Ctx, Tier};

#[global_allocator]
static GLOBAL: vh::mon::CountingAlloc = vh::mon::CountingAlloc;

fn main() {
    let args: Vec<String> = std::env::args().collect();
    if args.len() < 3 {
        eprintln!("usage: vh run <ID> --seed S --tier T --shard i/n --out DIR [--arg k=v]");
        std::process::exit(2);
    }
    let cmd = args[1].as_str();
    let id = args[2].to_uppercase();
    if cmd == "worker" {
        std::process::exit(match id.as_str() {
            "C01" => vh::wl::c01::worker_main(),
            _ => 2,
        });
    }
    let mut seed = 1u64;
    let mut tier = Tier::Quick;
    let mut shard = 0usize;
    let mut nshards = 1usize;
    let mut out = PathBuf::from("/tmp/vh-out");
    let mut extra = BTreeMap::new();
    let mut i = 3;
    while i < args.len() {
        let a = args[i].as_str();
        let v = args.get(i + 1).cloned().unwrap_or_default();
        match a {
            "--seed" => seed = v.parse().expect("seed"),
            "--tier" => {
                tier = if v == "thorough" {
                    Tier::Thorough
                } else {
                    Tier::Quick
                }
            }
            "--shard" => {
                let (a, b) = v.split_once('/').expect("shard i/n");
                shard = a.parse().unwrap();
                nshards = b.parse().unwrap();
            }
            "--out" => out = PathBuf::from(v),
            "--arg" => {
                let (k, val) = v.split_once('=').unwrap_or((v.as_str(), ""));
                extra.insert(k.to_string(), val.to_string());
            }
            _ => {
                eprintln!("unknown arg {a}");
                std::process::exit(2);
            }
        }
        i += 2;
    }
    let ctx = Ctx {
        id: id.clone(),
        seed,
        tier,
        shard,
        nshards,
        out,
        args: extra,
    };
    match cmd {
        "run" => {
            let code = vh::wl::dispatch(&ctx);
            std::process::exit(code);
        }
        _ => {
            eprintln!("unknown command {cmd}");
            std::process::exit(2);
        }
    }
}
