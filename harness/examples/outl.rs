use oxidize_pdf::structure::{Destination, OutlineBuilder, OutlineItem, PageDestination};
use oxidize_pdf::{Document, Page};
fn main() {
    let mut doc = Document::new();
    doc.add_page(Page::a4());
    doc.add_page(Page::a4());
    let d = |p: u32| Destination::fit(PageDestination::PageNumber(p));
    let mut a = OutlineItem::new("A").with_destination(d(0));
    let mut a1 = OutlineItem::new("A1").with_destination(d(1));
    a1.add_child(OutlineItem::new("A1x").with_destination(d(0)));
    a.add_child(a1);
    a.add_child(OutlineItem::new("A2").with_destination(d(1)).closed());
    let b_ = OutlineItem::new("B").with_destination(d(1));
    let mut b = OutlineBuilder::new();
    b.add_item(a);
    b.add_item(b_);
    doc.set_outline(b.build());
    let bytes = doc.to_bytes().unwrap();
    std::fs::write("/dev/shm/outl.pdf", &bytes).unwrap();
}
