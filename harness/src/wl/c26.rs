//! C26 — CMaps map every code to the Unicode they define.
//! The generator's own entry list is the model; the CMap text is rendered from it
//! (canonical and with lexical variations), parsed by the library and probed with
//! codes at and around every entry boundary (all codes when the space is small).
//! Second part: ToUnicodeCMapBuilder output parsed back against the map it was built from.
use crate::{Ctx, Recorder, Rng};
use oxidize_pdf::text::cmap::{CMap, ToUnicodeCMapBuilder};
use serde_json::{json, Value};
use std::collections::BTreeMap;

#[derive(Clone, Debug)]
enum Entry {
    Char { src: Vec<u8>, dst: Vec<u8> },
    RangeOff { lo: Vec<u8>, hi: Vec<u8>, dst: Vec<u8> },
    RangeArr { lo: Vec<u8>, hi: Vec<u8>, dsts: Vec<Vec<u8>> },
}

fn be_val(b: &[u8]) -> u64 {
    b.iter().fold(0u64, |a, &x| (a << 8) | x as u64)
}
fn be_bytes(v: u64, len: usize) -> Vec<u8> {
    (0..len).rev().map(|i| ((v >> (8 * i)) & 0xff) as u8).collect()
}
fn hexs(b: &[u8], lower: bool) -> String {
    b.iter().map(|x| if lower { format!("{x:02x}") } else { format!("{x:02X}") }).collect()
}
fn utf16be(s: &str) -> Vec<u8> {
    s.encode_utf16().flat_map(|u| u.to_be_bytes()).collect()
}
fn from_utf16be(b: &[u8]) -> Option<String> {
    if b.len() % 2 != 0 {
        return None;
    }
    let u: Vec<u16> = b.chunks(2).map(|c| u16::from_be_bytes([c[0], c[1]])).collect();
    String::from_utf16(&u).ok()
}
/// add n to the last UTF-16 unit(s) of a destination, as a big-endian integer over the whole string
fn dst_plus(dst: &[u8], n: u64) -> Vec<u8> {
    let mut out = dst.to_vec();
    let mut carry = n;
    for b in out.iter_mut().rev() {
        let s = *b as u64 + (carry & 0xff);
        *b = (s & 0xff) as u8;
        carry = (carry >> 8) + (s >> 8);
        if carry == 0 {
            break;
        }
    }
    out
}

/// codespace membership per Adobe TN 5014 / ISO 32000-1 9.7.6.2: same length and every byte within
/// the corresponding bytes of the range
fn in_codespace(cs: &[(Vec<u8>, Vec<u8>)], code: &[u8]) -> bool {
    cs.iter().any(|(lo, hi)| lo.len() == code.len() && code.iter().zip(lo.iter().zip(hi.iter())).all(|(c, (l, h))| l <= c && c <= h))
}
fn in_codespace_lexicographic(cs: &[(Vec<u8>, Vec<u8>)], code: &[u8]) -> bool {
    cs.iter().any(|(lo, hi)| lo.len() == code.len() && code >= &lo[..] && code <= &hi[..])
}

fn candidates(entries: &[Entry], code: &[u8]) -> Vec<(usize, Vec<u8>)> {
    let mut v = Vec::new();
    for (ei, e) in entries.iter().enumerate() {
        match e {
            Entry::Char { src, dst } => {
                if src == code {
                    v.push((ei, dst.clone()));
                }
            }
            Entry::RangeOff { lo, hi, dst } => {
                if lo.len() == code.len() && be_val(lo) <= be_val(code) && be_val(code) <= be_val(hi) {
                    v.push((ei, dst_plus(dst, be_val(code) - be_val(lo))));
                }
            }
            Entry::RangeArr { lo, hi, dsts } => {
                if lo.len() == code.len() && be_val(lo) <= be_val(code) && be_val(code) <= be_val(hi) {
                    let k = (be_val(code) - be_val(lo)) as usize;
                    if k < dsts.len() {
                        v.push((ei, dsts[k].clone()));
                    }
                }
            }
        }
    }
    v
}

fn form(e: &Entry) -> &'static str {
    match e {
        Entry::Char { .. } => "bfchar",
        Entry::RangeOff { lo, hi, .. } => {
            if lo[..lo.len() - 1] != hi[..hi.len() - 1] {
                "bfrange_offset_crossing_byte_boundary"
            } else {
                "bfrange_offset"
            }
        }
        Entry::RangeArr { lo, hi, .. } => {
            if lo[..lo.len() - 1] != hi[..hi.len() - 1] {
                "bfrange_array_crossing_byte_boundary"
            } else {
                "bfrange_array"
            }
        }
    }
}

const CODESPACES: &[&[(&[u8], &[u8])]] = &[
    &[(&[0x00], &[0xFF])],
    &[(&[0x00, 0x00], &[0xFF, 0xFF])],
    &[(&[0x20], &[0x7E])],
    &[(&[0x81, 0x40], &[0x9F, 0xFC])],
    &[(&[0x00], &[0x80]), (&[0x81, 0x40], &[0x9F, 0xFC]), (&[0xA0], &[0xDF]), (&[0xE0, 0x40], &[0xFC, 0xFC])],
    &[(&[0x00, 0x00, 0x00], &[0x10, 0xFF, 0xFF])],
    &[(&[0x8E, 0xA1, 0xA1, 0xA1], &[0x8E, 0xA4, 0xFE, 0xFE]), (&[0x00], &[0x8D]), (&[0xA1, 0xA1], &[0xFE, 0xFE])],
    &[(&[0x00, 0x00, 0x00, 0x00], &[0x00, 0x10, 0xFF, 0xFF])],
];

/// a destination (UTF-16BE) such that dst+0 ..= dst+span are all well-formed
fn gen_dst(r: &mut Rng, span: u64) -> Vec<u8> {
    match r.below(10) {
        0 | 1 => {
            // astral: low surrogate must stay within DC00..DFFF
            let span = span.min(0x3ff);
            let lo_max = 0xDFFF - span;
            let low = 0xDC00 + r.below(lo_max - 0xDC00 + 1);
            let high = 0xD800 + r.below(0x400);
            let mut v = be_bytes(high, 2);
            v.extend(be_bytes(low, 2));
            v
        }
        2 => {
            // multi-character destination (ligature-like): the last unit counts up
            let last = 0x0041 + r.below(0xD000 - span.min(0xC000));
            let mut v = utf16be(*r.pick(&["f", "ff", "A\u{0301}", "\u{4e2d}"]));
            v.extend(be_bytes(last, 2));
            v
        }
        3 => {
            // private use / high BMP
            let hi = 0xFFFD - span.min(0x1f00);
            be_bytes(0xE000 + r.below(hi - 0xE000 + 1), 2)
        }
        4 => be_bytes(0x00F0 + r.below(0x20), 2), // low byte carries soon: <00F0> + 0x20 -> <0110>
        _ => {
            let hi = 0xD7FF - span.min(0xD000);
            be_bytes(0x0020 + r.below(hi - 0x20 + 1), 2)
        }
    }
}

fn rand_code_in(r: &mut Rng, cs: &(Vec<u8>, Vec<u8>)) -> Vec<u8> {
    cs.0.iter().zip(cs.1.iter()).map(|(l, h)| *l + r.below((*h - *l) as u64 + 1) as u8).collect()
}

struct Model {
    cs: Vec<(Vec<u8>, Vec<u8>)>,
    sections: Vec<Vec<Entry>>, // each section is all bfchar or all bfrange
}

fn gen_model(r: &mut Rng) -> Model {
    let cs: Vec<(Vec<u8>, Vec<u8>)> = r.pick(CODESPACES).iter().map(|(a, b)| (a.to_vec(), b.to_vec())).collect();
    let nsec = r.urange(1, 5);
    let overlap_ok = r.chance(1, 4);
    let mut sections = Vec::new();
    let mut used: Vec<(usize, u64, u64)> = Vec::new(); // (len, lo, hi) to keep entries disjoint unless overlap_ok
    for _ in 0..nsec {
        let is_char = r.bool();
        let n = if r.chance(1, 10) { r.urange(100, 140) } else { r.urange(1, 12) };
        let mut sec = Vec::new();
        for _ in 0..n {
            let space = r.pick(&cs).clone();
            let len = space.0.len();
            let mut lo = rand_code_in(r, &space);
            if r.chance(1, 20) {
                // an entry outside the declared codespace (sloppy producer)
                lo = (0..len).map(|_| r.below(256) as u8).collect();
            }
            let maxv = if len >= 8 { u64::MAX } else { (1u64 << (8 * len)) - 1 };
            let e = if is_char {
                Entry::Char { src: lo.clone(), dst: gen_dst(r, 0) }
            } else {
                let lov = be_val(&lo);
                let mut span = match r.below(6) {
                    0 => 0,
                    1 => r.below(4),
                    2 => 0xFF - (lov & 0xFF),          // up to the end of the low byte
                    3 => (0xFF - (lov & 0xFF)) + 1 + r.below(40), // crosses the byte boundary
                    4 => r.below(600),
                    _ => r.below(30),
                };
                if lov + span > maxv {
                    span = maxv - lov;
                }
                let hi = be_bytes(lov + span, len);
                if r.chance(1, 3) {
                    let span = span.min(40);
                    let hi = be_bytes(lov + span, len);
                    let k = match r.below(6) {
                        0 => span.saturating_sub(1), // fewer destinations than codes
                        _ => span + 1,
                    };
                    Entry::RangeArr { lo: lo.clone(), hi, dsts: (0..k).map(|_| gen_dst(r, 0)).collect() }
                } else {
                    Entry::RangeOff { lo: lo.clone(), hi, dst: gen_dst(r, span) }
                }
            };
            let (a, b) = match &e {
                Entry::Char { src, .. } => (be_val(src), be_val(src)),
                Entry::RangeOff { lo, hi, .. } | Entry::RangeArr { lo, hi, .. } => (be_val(lo), be_val(hi)),
            };
            if !overlap_ok && used.iter().any(|(l, x, y)| *l == len && a <= *y && *x <= b) {
                continue;
            }
            used.push((len, a, b));
            sec.push(e);
        }
        if !sec.is_empty() {
            sections.push(sec);
        }
    }
    Model { cs, sections }
}

#[derive(Default, Clone, Debug)]
struct Style {
    lower_hex: bool,
    eol: &'static str,
    comments: bool,
    one_line: bool,
    hex_inner_space: bool,
    no_counts: bool,
    tight: bool,
}

fn render(m: &Model, st: &Style) -> String {
    let eol = st.eol;
    let sep = if st.one_line { " " } else { eol };
    let mut s = String::new();
    let h = |b: &[u8]| -> String {
        let x = hexs(b, st.lower_hex);
        if st.hex_inner_space && x.len() >= 4 {
            format!("<{} {}>", &x[..2], &x[2..])
        } else {
            format!("<{x}>")
        }
    };
    let gap = if st.tight { "" } else { " " };
    s.push_str(&format!("/CIDInit /ProcSet findresource begin{eol}12 dict begin{eol}begincmap{eol}"));
    if st.comments {
        s.push_str(&format!("% a comment with <0041> <0042> inside{eol}"));
    }
    s.push_str(&format!("/CIDSystemInfo << /Registry (Adobe) /Ordering (UCS) /Supplement 0 >> def{eol}/CMapName /Adobe-Identity-UCS def{eol}/CMapType 2 def{eol}"));
    s.push_str(&format!("{} begincodespacerange{sep}", m.cs.len()));
    for (a, b) in &m.cs {
        s.push_str(&format!("{}{gap}{}{sep}", h(a), h(b)));
    }
    s.push_str(&format!("endcodespacerange{eol}"));
    for sec in &m.sections {
        let is_char = matches!(sec[0], Entry::Char { .. });
        for chunk in sec.chunks(100) {
            if !st.no_counts {
                s.push_str(&format!("{} ", chunk.len()));
            }
            s.push_str(if is_char { "beginbfchar" } else { "beginbfrange" });
            s.push_str(sep);
            for (k, e) in chunk.iter().enumerate() {
                match e {
                    Entry::Char { src, dst } => s.push_str(&format!("{}{gap}{}", h(src), h(dst))),
                    Entry::RangeOff { lo, hi, dst } => s.push_str(&format!("{}{gap}{}{gap}{}", h(lo), h(hi), h(dst))),
                    Entry::RangeArr { lo, hi, dsts } => {
                        s.push_str(&format!("{}{gap}{}{gap}[", h(lo), h(hi)));
                        for (j, d) in dsts.iter().enumerate() {
                            if j > 0 && !st.tight {
                                s.push(' ');
                            }
                            s.push_str(&h(d));
                        }
                        s.push(']');
                    }
                }
                if st.comments && k % 7 == 3 {
                    s.push_str(&format!(" % entry {k}{eol}"));
                } else {
                    s.push_str(sep);
                }
            }
            s.push_str(if is_char { "endbfchar" } else { "endbfrange" });
            s.push_str(eol);
        }
    }
    s.push_str(&format!("endcmap{eol}CMapName currentdict /CMap defineresource pop{eol}end{eol}end{eol}"));
    s
}

fn probe_codes(r: &mut Rng, m: &Model, entries: &[Entry], full: bool) -> Vec<Vec<u8>> {
    let mut v: Vec<Vec<u8>> = Vec::new();
    let around = |code: &[u8], v: &mut Vec<Vec<u8>>| {
        let len = code.len();
        let val = be_val(code);
        let maxv = if len >= 8 { u64::MAX } else { (1u64 << (8 * len)) - 1 };
        v.push(code.to_vec());
        if val > 0 {
            v.push(be_bytes(val - 1, len));
        }
        if val < maxv {
            v.push(be_bytes(val + 1, len));
        }
        if len > 1 {
            v.push(code[..len - 1].to_vec());
            v.push(code[1..].to_vec());
        }
        if len < 4 {
            let mut c = code.to_vec();
            c.push(0);
            v.push(c);
            let mut c = vec![0u8];
            c.extend_from_slice(code);
            v.push(c);
        }
    };
    for e in entries {
        match e {
            Entry::Char { src, .. } => around(src, &mut v),
            Entry::RangeOff { lo, hi, .. } | Entry::RangeArr { lo, hi, .. } => {
                around(lo, &mut v);
                around(hi, &mut v);
                let (a, b) = (be_val(lo), be_val(hi));
                // the carry point(s) inside the range and a few interior codes
                let mut x = (a | 0xFF).min(b);
                for _ in 0..3 {
                    if x <= b {
                        v.push(be_bytes(x, lo.len()));
                        if x + 1 <= b {
                            v.push(be_bytes(x + 1, lo.len()));
                        }
                    }
                    x += 0x100;
                }
                for _ in 0..4 {
                    v.push(be_bytes(a + r.below(b - a + 1), lo.len()));
                }
            }
        }
    }
    for (a, b) in &m.cs {
        around(a, &mut v);
        around(b, &mut v);
        for _ in 0..30 {
            v.push(rand_code_in(r, &(a.clone(), b.clone())));
        }
        for _ in 0..10 {
            v.push((0..a.len()).map(|_| r.below(256) as u8).collect());
        }
    }
    for c in 0..=255u8 {
        v.push(vec![c]);
    }
    if full {
        for c in 0..=0xFFFFu64 {
            v.push(be_bytes(c, 2));
        }
    }
    v.sort();
    v.dedup();
    v
}

fn check_model(rec: &mut Recorder, c: u64, seed: u64, m: &Model, text: &str, style: &Style, canonical: Option<&std::collections::HashSet<String>>, codes: &[Vec<u8>]) -> std::collections::HashSet<String> {
    let entries: Vec<Entry> = m.sections.iter().flatten().cloned().collect();
    let tag = if canonical.is_none() { "canonical" } else { "varied" };
    let mut failed: std::collections::HashSet<String> = std::collections::HashSet::new();
    let replay = |what: Value| json!({"case": c, "seed": seed, "cmap_text": if text.len() < 20000 { json!(text) } else { json!(&text[..20000]) }, "style": format!("{style:?}"), "what": what});
    let cmap = match crate::mon::guarded(|| CMap::parse(text.as_bytes())) {
        Ok(Ok(m)) => m,
        Ok(Err(e)) => {
            rec.violation(format!("C26|parse|error|{tag}"), e.to_string(), replay(json!(null)));
            return failed;
        }
        Err(p) => {
            rec.violation(format!("C26|panic|{}", p.site()), p.message.clone(), replay(json!(null)));
            return failed;
        }
    };
    let mut report = |rec: &mut Recorder, sig: String, detail: String, what: Value| {
        let key = format!("{sig}#{}", what["code"].as_str().unwrap_or(""));
        failed.insert(key.clone());
        // the canonical rendering of the same model already failed in the same way: reported there
        if canonical.map(|s| s.contains(&key)).unwrap_or(false) {
            return;
        }
        // otherwise the lexical variation is what matters
        let sig = if canonical.is_some() {
            let mut flags = Vec::new();
            if style.eol == "\r" { flags.push("cr_line_ends"); }
            if style.comments { flags.push("comments"); }
            if style.one_line { flags.push("one_line"); }
            if style.hex_inner_space { flags.push("space_inside_hex"); }
            if style.lower_hex { flags.push("lowercase_hex"); }
            if style.no_counts { flags.push("no_counts"); }
            if style.tight { flags.push("no_spaces"); }
            format!("C26|rendering_sensitive|{}", flags.join("+"))
        } else {
            sig
        };
        rec.violation(sig, detail, replay(what));
    };
    for code in codes {
        rec.count("codes_probed");
        let cand = candidates(&entries, code);
        let inside = in_codespace(&m.cs, code);
        let r = crate::mon::guarded(|| (cmap.map(code), cmap.is_valid_code(code)));
        let (got, valid) = match r {
            Ok(x) => x,
            Err(p) => {
                rec.violation(format!("C26|panic|{}", p.site()), p.message.clone(), replay(json!({"code": hexs(code, false)})));
                    continue;
            }
        };
        if valid != inside {
            let cls = if valid && in_codespace_lexicographic(&m.cs, code) { "accepted_between_range_ends_but_a_byte_is_outside_its_byte_range" } else if valid { "accepted_outside" } else { "rejected_inside" };
            report(rec, format!("C26|is_valid_code|{cls}"), format!("code <{}>: is_valid_code={valid}, codespace says {inside}", hexs(code, false)), json!({"code": hexs(code, false)}));
        }
        if cand.is_empty() {
            rec.count("unmapped_probes");
            if let Some(g) = &got {
                    report(rec, "C26|map|code_without_entry_is_mapped".into(), format!("code <{}> has no entry but maps to <{}>", hexs(code, false), hexs(g, false)), json!({"code": hexs(code, false)}));
            }
            continue;
        }
        if !inside {
            rec.count("explicit_entry_outside_codespace");
            continue; // explicit entries of sloppy producers: the library documents that it honours them
        }
        let distinct: std::collections::BTreeSet<&Vec<u8>> = cand.iter().map(|x| &x.1).collect();
        let f = form(&entries[cand.last().unwrap().0]);
        rec.count(&format!("mapped_probes.{f}"));
        match &got {
            None => {
                    report(rec, format!("C26|map|defined_code_not_mapped|{f}"), format!("code <{}> should map to <{}>", hexs(code, false), hexs(&cand.last().unwrap().1, false)), json!({"code": hexs(code, false)}));
            }
            Some(g) => {
                if !distinct.contains(g) {
                            report(rec, format!("C26|map|value_differs|{f}"), format!("code <{}> maps to <{}>, the CMap defines <{}>", hexs(code, false), hexs(g, false), hexs(&cand.last().unwrap().1, false)), json!({"code": hexs(code, false)}));
                } else {
                    if distinct.len() > 1 {
                        rec.count("ambiguous_probes_any_defined_value_accepted");
                    }
                    let want = from_utf16be(g);
                    let u = cmap.to_unicode(g);
                    if want.is_some() && u != want {
                                    report(rec, format!("C26|to_unicode|differs|{f}"), format!("<{}> -> {:?}, UTF-16BE says {:?}", hexs(g, false), u, want), json!({"code": hexs(code, false)}));
                    }
                }
            }
        }
    }
    drop(report);
    failed
}

const UNI_POOL: &[&str] = &["A", "z", "0", " ", "é", "ß", "Ω", "Ж", "中", "あ", "\u{FB01}", "\u{1F600}", "\u{10000}", "\u{10FFFF}", "\u{FFFD}", "\u{E000}", "\u{D7FF}", "a\u{0301}", "ffi", "\u{1F468}\u{200D}\u{1F469}", "\u{00A0}", "\u{00AD}"];

fn builder_case(rec: &mut Recorder, r: &mut Rng, c: u64, seed: u64) {
    let code_len = *r.pick(&[1usize, 2, 2, 2, 3, 4]);
    let n = match r.below(12) {
        0 => 0,
        1 => r.urange(99, 102),
        2 => r.urange(199, 203),
        3 => r.urange(1000, 5000),
        _ => r.urange(1, 60),
    };
    let n = if code_len == 1 { n.min(256) } else { n };
    let mut b = ToUnicodeCMapBuilder::new(code_len);
    let mut model: BTreeMap<Vec<u8>, String> = BTreeMap::new();
    let maxv = (1u64 << (8 * code_len)) - 1;
    let dense = r.bool();
    let base = r.below(maxv / 2 + 1);
    // a third of the builder cases map a run of consecutive codes to consecutive code points that
    // crosses a boundary where the UTF-16 form is not consecutive (surrogate blocks, U+FFFF / U+10000,
    // the surrogate gap) or a byte carry
    let run_start: Option<u32> = if dense && r.chance(2, 3) { Some(*r.pick(&[0x1F3F8u32, 0x103F0, 0xFFF8, 0xD7F8, 0x00F8, 0x1FFF8, 0x10FFF0, 0x2F7F0, 0x0FF8])) } else { None };
    for k in 0..n {
        let v = if dense { (base + k as u64).min(maxv) } else { r.below(maxv + 1) };
        let code = be_bytes(v, code_len);
        let s = if let Some(cp) = run_start.and_then(|st| char::from_u32(st + k as u32)) {
            cp.to_string()
        } else if run_start.is_some() {
            "A".to_string()
        } else if r.chance(1, 3) {
            char::from_u32(0x21 + r.below(0x2000) as u32).filter(|c| !c.is_control()).map(|c| c.to_string()).unwrap_or_else(|| "A".into())
        } else {
            let mut s = r.pick(UNI_POOL).to_string();
            if r.chance(1, 8) {
                let extra: &str = *r.pick(UNI_POOL);
                s.push_str(extra);
            }
            s
        };
        if code_len > 1 && v <= 0xff && r.chance(1, 4) {
            if let Some(ch) = s.chars().next() {
                b.add_single_byte_mapping(v as u8, ch);
                model.insert(code, ch.to_string());
                continue;
            }
        }
        b.add_mapping(code.clone(), &s);
        model.insert(code, s);
    }
    let text = match crate::mon::guarded(|| b.build()) {
        Ok(t) => t,
        Err(p) => {
            rec.violation(format!("C26|builder|panic|{}", p.site()), p.message.clone(), json!({"case": c, "seed": seed}));
            return;
        }
    };
    let replay = |what: Value| json!({"case": c, "seed": seed, "code_len": code_len, "entries": model.len(), "cmap_text": String::from_utf8_lossy(&text[..text.len().min(6000)]), "what": what});
    let cmap = match CMap::parse(&text) {
        Ok(m) => m,
        Err(e) => {
            rec.violation("C26|builder|output_does_not_parse", e.to_string(), replay(json!(null)));
            return;
        }
    };
    for (code, s) in &model {
        rec.count("builder_entries_checked");
        let got = cmap.map(code).and_then(|m| cmap.to_unicode(&m));
        if got.as_deref() != Some(s.as_str()) {
            rec.violation("C26|builder|entry_reads_back_differently", format!("code <{}> built from {:?} reads back {:?}", hexs(code, false), s, got), replay(json!({"code": hexs(code, false)})));
            break;
        }
        if !cmap.is_valid_code(code) {
            rec.violation("C26|builder|own_code_outside_declared_codespace", format!("code <{}>", hexs(code, false)), replay(json!({"code": hexs(code, false)})));
            break;
        }
    }
    // codes that were never added must stay unmapped
    for _ in 0..200 {
        let code = be_bytes(r.below(maxv + 1), code_len);
        if !model.contains_key(&code) {
            rec.count("builder_absent_codes_checked");
            if let Some(m) = cmap.map(&code) {
                rec.violation("C26|builder|absent_code_is_mapped", format!("code <{}> -> <{}>", hexs(&code, false), hexs(&m, false)), replay(json!({"code": hexs(&code, false)})));
                break;
            }
        }
    }
    // sections must hold at most 100 entries (ISO 32000-1 9.7.5.4 / TN 5014)
    let t = String::from_utf8_lossy(&text);
    for line in t.lines() {
        if let Some(nstr) = line.strip_suffix(" beginbfchar").or_else(|| line.strip_suffix(" beginbfrange")) {
            if nstr.trim().parse::<usize>().map(|x| x > 100).unwrap_or(false) {
                rec.violation("C26|builder|section_longer_than_100", line.to_string(), replay(json!(null)));
            }
        }
    }
    rec.case(format!("b{c}").as_bytes(), model.len() >= 1);
}

pub fn run(ctx: &Ctx, rec: &mut Recorder) -> Result<(), String> {
    let ncases = ctx.qt(6_000u64, 400_000u64);
    for c in 0..ncases {
        if !ctx.mine(c) {
            continue;
        }
        let mut r = Rng::derive(ctx.seed, 26, c);
        if c % 4 == 3 {
            rec.evaluations += 1;
            builder_case(rec, &mut r, c, ctx.seed);
            continue;
        }
        let m = gen_model(&mut r);
        if m.sections.is_empty() {
            continue;
        }
        let entries: Vec<Entry> = m.sections.iter().flatten().cloned().collect();
        let two_byte = m.cs.iter().all(|x| x.0.len() <= 2) && m.cs.iter().any(|x| x.0.len() == 2);
        let full = two_byte && r.chance(1, ctx.qt(12, 4));
        let codes = probe_codes(&mut r, &m, &entries, full);
        if full {
            rec.count("two_byte_spaces_enumerated_completely");
        }
        let canon = Style { eol: "\n", ..Default::default() };
        let t1 = render(&m, &canon);
        rec.evaluations += 1;
        let ok1 = check_model(rec, c, ctx.seed, &m, &t1, &canon, None, &codes);
        let st = Style {
            lower_hex: r.bool(),
            eol: *r.pick(&["\n", "\r\n", "\r", "\n"]),
            comments: r.chance(1, 3),
            one_line: r.chance(1, 4),
            hex_inner_space: r.chance(1, 6),
            no_counts: r.chance(1, 6),
            tight: r.chance(1, 4),
        };
        let t2 = render(&m, &st);
        rec.evaluations += 1;
        let sample: Vec<Vec<u8>> = if full { codes.iter().step_by(17).cloned().collect() } else { codes.clone() };
        check_model(rec, c, ctx.seed, &m, &t2, &st, Some(&ok1), &sample);
        for e in &entries {
            rec.set_add("entry_forms", form(e));
        }
        rec.set_add("codespace_shapes", format!("{:?}", m.cs.iter().map(|x| x.0.len()).collect::<Vec<_>>()));
        rec.case(format!("m{c}").as_bytes(), entries.len() >= 2);
        if rec.samples.len() < 2 {
            rec.sample(json!({"case": c, "entries": entries.len(), "codes_probed": codes.len(), "text_head": &t2[..t2.len().min(300)]}));
        }
    }
    Ok(())
}
