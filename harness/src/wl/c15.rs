//! C15 — the document-to-chunks pipeline preserves content and provenance.
//! Multi-page documents are authored through the public API from a model with unique
//! markers (headings T<k>_HEADING…, paragraphs of marker words); the file is reopened
//! and run through rag_chunks / rag_chunks_with / rag_chunks_with_source / rag_chunks_json.
//! The monitor reads the chunks: every marker in exactly one chunk, page_numbers equal to
//! the pages the chunk's markers were authored on, heading context = the governing authored
//! heading (judged only when the classifier promoted the headings), and determinism of ids
//! and JSON across runs.
use crate::{Ctx, Recorder, Rng};
use oxidize_pdf::parser::{PdfDocument, PdfReader};
use oxidize_pdf::pipeline::{ContextFormat, ContextMode, DocumentSource, HybridChunkConfig, MergePolicy, RagChunk};
use oxidize_pdf::{Document, Font, Page};
use serde_json::{json, Value};
use std::collections::{BTreeMap, BTreeSet};
use std::io::Cursor;

struct Para {
    /// authored breadcrumb root -> leaf (a heading of size s closes every open heading of size <= s)
    path: Vec<String>,
    words: Vec<String>, // unique marker words, in order; lines of <= 8 words
    page: u32,          // 0-based page every word of this paragraph is on
    heading: Option<String>,
    kind: &'static str,
}

struct Model {
    paras: Vec<Para>,
    headings: Vec<(String, u32)>,
    pages: usize,
}

fn author(r: &mut Rng, c: u64) -> (Vec<u8>, Model) {
    let mut doc = Document::new();
    doc.set_title(&format!("Doc {c}"));
    let npages = r.urange(1, 5);
    let mut paras = Vec::new();
    let mut headings = Vec::new();
    let mut cur_heading: Option<String> = None;
    let mut stack: Vec<(f64, String)> = Vec::new();
    let mut pid = 0usize;
    let with_headings = r.chance(3, 4);
    for pg in 0..npages {
        let mut page = Page::a4();
        // body band: stay away from the top and bottom 8 % (header/footer candidates by design)
        let mut y = 760.0;
        let bottom = 90.0;
        // one page in six carries no text at all (a blank or image-only page)
        let nblocks = if npages > 1 && r.chance(1, 6) { 0 } else { r.urange(1, 6) };
        for _ in 0..nblocks {
            if y < bottom + 120.0 {
                break;
            }
            if with_headings && r.chance(1, 3) {
                let h = format!("T{}_HEADING", headings.len());
                let size = *r.pick(&[24.0, 18.0, 16.0]);
                page.text().set_font(Font::HelveticaBold, size).at(72.0, y).write(&h).ok();
                headings.push((h.clone(), pg as u32));
                stack.retain(|(sz, _)| *sz > size);
                stack.push((size, h.clone()));
                cur_heading = Some(h);
                y -= size + 22.0;
            }
            let kind: &'static str = if r.chance(1, 5) { "list" } else { "para" };
            let nlines = r.urange(1, 5);
            let mut words = Vec::new();
            for l in 0..nlines {
                if y < bottom {
                    break;
                }
                let n = r.urange(3, 8);
                let lw: Vec<String> = (0..n).map(|k| format!("P{pid}L{l}W{k}x{}", r.below(1000))).collect();
                let line = if kind == "list" && l == 0 { format!("- {}", lw.join(" ")) } else { lw.join(" ") };
                page.text().set_font(Font::Helvetica, *r.pick(&[10.0, 11.0])).at(72.0, y).write(&line).ok();
                words.extend(lw);
                y -= 14.0;
            }
            if !words.is_empty() {
                paras.push(Para { path: stack.iter().map(|(_, t)| t.clone()).collect(), words, page: pg as u32, heading: cur_heading.clone(), kind });
                pid += 1;
            }
            y -= 26.0; // paragraph gap
        }
        doc.add_page(page);
    }
    let bytes = doc.to_bytes().unwrap_or_default();
    (bytes, Model { paras, headings, pages: npages })
}

fn chunk_words(text: &str) -> Vec<String> {
    text.split_whitespace().filter(|w| w.starts_with('P') && w.contains('W')).map(|w| w.trim_matches(|c: char| !c.is_ascii_alphanumeric()).to_string()).collect()
}

pub fn run(ctx: &Ctx, rec: &mut Recorder) -> Result<(), String> {
    let ncases = ctx.qt(600u64, 30_000u64);
    for c in 0..ncases {
        if !ctx.mine(c) {
            continue;
        }
        let mut r = Rng::derive(ctx.seed, 15, c);
        let (bytes, model) = author(&mut r, c);
        if bytes.is_empty() || model.paras.is_empty() {
            continue;
        }
        let open = || -> Result<PdfDocument<Cursor<Vec<u8>>>, String> { PdfReader::new(Cursor::new(bytes.clone())).map(PdfDocument::new).map_err(|e| e.to_string()) };
        let word_home: BTreeMap<&str, usize> = model.paras.iter().enumerate().flat_map(|(i, p)| p.words.iter().map(move |w| (w.as_str(), i))).collect();
        let cfgs: Vec<(String, Option<HybridChunkConfig>)> = {
            let mut v: Vec<(String, Option<HybridChunkConfig>)> = vec![("default".into(), None)];
            for _ in 0..ctx.qt(3, 8) {
                let cfg = HybridChunkConfig {
                    max_tokens: *r.pick(&[8usize, 24, 64, 512]),
                    overlap_tokens: *r.pick(&[0usize, 5, 50]),
                    merge_adjacent: !r.chance(1, 4),
                    propagate_headings: !r.chance(1, 4),
                    merge_policy: if r.bool() { MergePolicy::SameTypeOnly } else { MergePolicy::AnyInlineContent },
                    context_mode: *r.pick(&[ContextMode::None, ContextMode::Heading, ContextMode::Contextual(ContextFormat::Labeled), ContextMode::Contextual(ContextFormat::Prose)]),
                };
                v.push((format!("max{}|merge{}|prop{}|{:?}|{:?}", cfg.max_tokens, cfg.merge_adjacent, cfg.propagate_headings, cfg.merge_policy, cfg.context_mode), Some(cfg)));
            }
            v
        };
        for (cname, cfg) in cfgs {
            for entry in ["rag_chunks_with", "rag_chunks_with_source"] {
                if entry == "rag_chunks_with_source" && cfg.is_some() && !r.chance(1, 3) {
                    continue;
                }
                rec.evaluations += 1;
                let run_once = || -> Result<Vec<RagChunk>, String> {
                    let d = open()?;
                    match (entry, &cfg) {
                        ("rag_chunks_with", None) => d.rag_chunks().map_err(|e| e.to_string()),
                        ("rag_chunks_with", Some(c)) => d.rag_chunks_with(c.clone()).map_err(|e| e.to_string()),
                        (_, None) => d.rag_chunks_with_source(DocumentSource::default()).map_err(|e| e.to_string()),
                        (_, Some(c)) => d.rag_chunks_with_source_and_config(DocumentSource::default(), c.clone()).map_err(|e| e.to_string()),
                    }
                };
                let replay = |what: Value, chunks: Option<&Vec<RagChunk>>| {
                    json!({"case": c, "seed": ctx.seed, "entry": entry, "config": cname, "pdf_hex": if bytes.len() < 40000 { json!(crate::rec::hex(&bytes)) } else { Value::Null },
                        "model": model.paras.iter().map(|p| json!({"page": p.page, "heading": p.heading, "kind": p.kind, "words": p.words.len(), "first": p.words.first()})).collect::<Vec<_>>(),
                        "chunks": chunks.map(|cs| cs.iter().map(|k| json!({"text": k.text.chars().take(160).collect::<String>(), "pages": k.page_numbers, "heading": k.heading_context, "types": k.element_types})).collect::<Vec<_>>()), "what": what})
                };
                let chunks = match crate::mon::guarded(run_once) {
                    Ok(Ok(v)) => v,
                    Ok(Err(e)) => {
                        rec.violation(format!("C15|{entry}|error"), e, replay(json!(null), None));
                        continue;
                    }
                    Err(p) => {
                        rec.violation(format!("C15|{entry}|panic|{}", p.site()), p.message.clone(), replay(json!(null), None));
                        continue;
                    }
                };
                rec.count_n("chunks_observed", chunks.len() as u64);
                // ---- conservation: every marker word in exactly one chunk
                let mut seen: BTreeMap<String, Vec<usize>> = BTreeMap::new();
                for (ci, ch) in chunks.iter().enumerate() {
                    for w in chunk_words(&ch.text) {
                        seen.entry(w).or_default().push(ci);
                    }
                }
                let mut lost = Vec::new();
                let mut dup = Vec::new();
                for w in word_home.keys() {
                    match seen.get(*w).map(|v| v.len()).unwrap_or(0) {
                        0 => lost.push(w.to_string()),
                        1 => {}
                        _ => dup.push(w.to_string()),
                    }
                }
                rec.count_n("marker_words_tracked", word_home.len() as u64);
                if !lost.is_empty() {
                    let kind = model.paras[word_home[lost[0].as_str()]].kind;
                    rec.violation(format!("C15|{entry}|marker_lost|{kind}"), format!("{} marker words are in no chunk, first {:?}", lost.len(), lost[0]), replay(json!({"lost": lost.iter().take(5).collect::<Vec<_>>()}), Some(&chunks)));
                    continue;
                }
                if !dup.is_empty() {
                    rec.violation(format!("C15|{entry}|marker_duplicated"), format!("{} marker words are in more than one chunk, first {:?}", dup.len(), dup[0]), replay(json!({"dup": dup.iter().take(5).collect::<Vec<_>>()}), Some(&chunks)));
                    continue;
                }
                // ---- provenance: page_numbers of a chunk = pages of its markers and headings (1-based or 0-based, consistently)
                let mut off: BTreeSet<i64> = BTreeSet::new();
                let mut prov_bad: Option<String> = None;
                for (ci, ch) in chunks.iter().enumerate() {
                    let mut pages: BTreeSet<i64> = chunk_words(&ch.text).iter().filter_map(|w| word_home.get(w.as_str())).map(|i| model.paras[*i].page as i64).collect();
                    for (h, pg) in &model.headings {
                        if ch.text.split_whitespace().any(|w| w == h) {
                            pages.insert(*pg as i64);
                        }
                    }
                    if pages.is_empty() {
                        continue;
                    }
                    let got: BTreeSet<i64> = ch.page_numbers.iter().map(|p| *p as i64).collect();
                    let d0 = got == pages;
                    let d1 = got == pages.iter().map(|p| p + 1).collect::<BTreeSet<i64>>();
                    if d0 && !d1 {
                        off.insert(0);
                    } else if d1 && !d0 {
                        off.insert(1);
                    } else if !d0 && !d1 {
                        prov_bad = Some(format!("chunk {ci}: page_numbers {:?}, its markers were authored on pages {:?} (0-based)", ch.page_numbers, pages));
                        break;
                    }
                }
                if prov_bad.is_none() && off.len() > 1 {
                    prov_bad = Some("page numbers are 0-based in some chunks and 1-based in others".into());
                }
                if let Some(d) = prov_bad {
                    rec.violation(format!("C15|{entry}|page_numbers_differ_from_authored_pages"), d, replay(json!(null), Some(&chunks)));
                    continue;
                }
                // ---- headings (only when the classifier promoted the authored headings and propagation is on)
                let propagate = cfg.as_ref().map(|c| c.propagate_headings).unwrap_or(true);
                let promoted = model.headings.iter().all(|(h, _)| chunks.iter().any(|k| k.text.split_whitespace().any(|w| w == h) && k.element_types.iter().any(|t| t == "title")));
                if propagate && !model.headings.is_empty() {
                    if !promoted {
                        rec.count("heading_clause_skipped_headings_not_promoted");
                    } else {
                        rec.count("heading_clause_judged");
                        for (ci, ch) in chunks.iter().enumerate() {
                            let first = chunk_words(&ch.text).into_iter().next();
                            let Some(w) = first else { continue };
                            let want = model.paras[word_home[w.as_str()]].heading.clone();
                            // a chunk that starts with a heading line itself carries that heading
                            let leading_heading = ch.text.split_whitespace().next().filter(|t| t.ends_with("_HEADING")).map(|s| s.to_string());
                            let ok = ch.heading_context == want || (leading_heading.is_some() && ch.heading_context == leading_heading);
                            if !ok {
                                rec.violation(format!("C15|{entry}|heading_context_is_not_the_governing_heading"), format!("chunk {ci}: heading_context {:?}, authored governing heading {:?}", ch.heading_context, want), replay(json!({"chunk": ci}), Some(&chunks)));
                                break;
                            }
                            // the breadcrumb of a chunk that starts with body text is the authored path of that text
                            if leading_heading.is_none() {
                                let want_path = &model.paras[word_home[w.as_str()]].path;
                                rec.count("heading_paths_compared");
                                if &ch.metadata.heading_path != want_path {
                                    rec.violation(format!("C15|{entry}|heading_path_is_not_the_authored_breadcrumb"), format!("chunk {ci}: heading_path {:?}, authored {:?}", ch.metadata.heading_path, want_path), replay(json!({"chunk": ci}), Some(&chunks)));
                                    break;
                                }
                            }
                        }
                    }
                }
                // ---- determinism: a second run (fresh parse) gives identical chunks, ids and JSON
                if let Ok(Ok(again)) = crate::mon::guarded(run_once) {
                    let a = serde_json::to_string(&chunks).unwrap_or_default();
                    let b = serde_json::to_string(&again).unwrap_or_default();
                    rec.count("determinism_reruns");
                    if a != b {
                        rec.violation(format!("C15|{entry}|nondeterministic"), "two runs over the same bytes serialise differently", replay(json!(null), Some(&chunks)));
                    }
                }
                rec.set_add("entry_x_config_shape", format!("{entry}|{}", if cfg.is_some() { "custom" } else { "default" }));
                rec.case(format!("{c}|{cname}|{entry}").as_bytes(), model.pages >= 1 && chunks.len() >= 1);
            }
        }
        // rag_chunks_json equals serialising rag_chunks()
        if let (Ok(d1), Ok(d2)) = (open(), open()) {
            if let (Ok(j), Ok(cs)) = (d1.rag_chunks_json(), d2.rag_chunks()) {
                rec.count("json_entry_compared");
                if j != serde_json::to_string(&cs).unwrap_or_default() {
                    rec.violation("C15|rag_chunks_json|differs_from_rag_chunks", "JSON entry point and rag_chunks() disagree", json!({"case": c, "seed": ctx.seed}));
                }
            }
        }
        if rec.samples.len() < 2 {
            rec.sample(json!({"case": c, "pages": model.pages, "paragraphs": model.paras.len(), "headings": model.headings.len()}));
        }
    }
    Ok(())
}
