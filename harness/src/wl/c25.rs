//! C25 — dump the complete behaviour of the four single-byte encodings
//! (decode of each of the 256 bytes, encode_strict and encode of each of the
//! 1 112 064 Unicode scalar values, PdfString::to_text per byte). The Annex D
//! tables and the comparison live in pyref/checks/c25.py.
use crate::{Ctx, Recorder};
use oxidize_pdf::parser::objects::PdfString;
use oxidize_pdf::text::TextEncoding;
use serde_json::{json, Value};

fn encs() -> Vec<(&'static str, TextEncoding)> {
    vec![
        ("WinAnsi", TextEncoding::WinAnsiEncoding),
        ("MacRoman", TextEncoding::MacRomanEncoding),
        ("Standard", TextEncoding::StandardEncoding),
        ("PdfDoc", TextEncoding::PdfDocEncoding),
    ]
}

pub fn run(ctx: &Ctx, rec: &mut Recorder) -> Result<(), String> {
    if ctx.shard != 0 {
        return Ok(());
    }
    let mut dump = serde_json::Map::new();
    for (name, enc) in encs() {
        // decode: 256 single bytes
        let mut dec: Vec<Value> = Vec::with_capacity(256);
        for b in 0u16..256 {
            let r = crate::mon::guarded(|| enc.decode(&[b as u8]));
            match r {
                Ok(s) => dec.push(json!(s.chars().map(|c| c as u32).collect::<Vec<u32>>())),
                Err(p) => {
                    rec.violation(
                        format!("C25|{name}|decode|panic|{}", p.site()),
                        p.message.clone(),
                        json!({"byte": b}),
                    );
                    dec.push(Value::Null);
                }
            }
            rec.eval_only(1);
        }
        // encode_strict / encode: every scalar value, run-length classified
        let mut strict_ok: Vec<Value> = Vec::new(); // [cp, [bytes]]
        let mut strict_ok_runs: Vec<(u32, u32)> = Vec::new(); // runs where Ok([cp as u8]) identity
        let mut enc_runs: Vec<(u32, u32, String)> = Vec::new(); // (start,end,class)
        let mut buf = [0u8; 4];
        for cp in 0u32..=0x10FFFF {
            let Some(c) = char::from_u32(cp) else { continue };
            let s: &str = c.encode_utf8(&mut buf);
            let s = s.to_string();
            // strict
            match enc.encode_strict(&s) {
                Ok(bytes) => {
                    if bytes.len() == 1 && bytes[0] as u32 == cp {
                        match strict_ok_runs.last_mut() {
                            Some(r) if r.1 + 1 == cp => r.1 = cp,
                            _ => strict_ok_runs.push((cp, cp)),
                        }
                    } else {
                        strict_ok.push(json!([cp, bytes]));
                    }
                }
                Err(_) => {}
            }
            // lossy
            let e = enc.encode(&s);
            let class = if e.len() == 1 && e[0] as u32 == cp {
                "id".to_string()
            } else if e == b"?" {
                "q".to_string()
            } else if e == s.as_bytes() {
                "utf8".to_string()
            } else {
                format!("b:{}", crate::rec::hex(&e))
            };
            match enc_runs.last_mut() {
                Some(r) if r.2 == class && !class.starts_with("b:") && is_adjacent(r.1, cp) => {
                    r.1 = cp
                }
                _ => enc_runs.push((cp, cp, class)),
            }
            rec.eval_only(2);
        }
        dump.insert(
            name.to_string(),
            json!({
                "decode": dec,
                "strict_identity_runs": strict_ok_runs,
                "strict_other": strict_ok,
                "encode_runs": enc_runs,
            }),
        );
    }
    // PdfString::to_text for each single byte (no BOM → PDFDocEncoding per §7.9.2.2)
    let mut tt: Vec<Value> = Vec::new();
    for b in 0u16..256 {
        let s = PdfString::new(vec![b as u8]).to_text();
        tt.push(json!(s.chars().map(|c| c as u32).collect::<Vec<u32>>()));
        rec.eval_only(1);
    }
    dump.insert("to_text".into(), json!(tt));
    crate::rec::write_file(
        &ctx.out.join("c25-dump.json"),
        serde_json::to_string(&Value::Object(dump)).unwrap().as_bytes(),
    );
    Ok(())
}

/// cp follows prev when skipping the surrogate gap.
fn is_adjacent(prev: u32, cp: u32) -> bool {
    prev + 1 == cp || (prev == 0xD7FF && cp == 0xE000)
}
