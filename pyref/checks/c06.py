"""C06 — encrypted files interoperate with an independent implementation.
Direction A (here): plaintext documents from pyref.pdfgen are encrypted by
pyref.crypto.Encryptor (anchored to the qpdf fixtures by fixtures_selftest) and
must open in the library with either password and yield the plaintext objects.
Direction B (library encrypts, pyref decrypts) is checked with C05's files."""
import json, os
from .common import args, rng, load_obs, load_cases
from .. import pdf, pdfgen, crypto
from ..pdf import Name, String, Ref, Stream
from ..recpy import Recorder
from .enc_common import classify, strip_len

MODES = ["rc4_40", "rc4_128", "rc4_v4", "aes_128", "aes_256"]
PW_CLASSES = {
    "empty": "", "ascii": "userpw", "ascii_symbols": "p@ss (w)\\rd", "latin1": "contraseña", "long_ascii": "x" * 40,
    "bmp": "пароль-密码", "astral": "pw😀key",
}


def pw_bytes(mode, pw):
    """what the specification says the password bytes are"""
    if mode == "aes_256":
        return crypto.utf8_password(pw)
    try:
        from ..enc_tables import PDFDOC
        inv = {cp: b for b, cp in PDFDOC.items()}
        return bytes(inv[ord(c)] for c in pw)
    except KeyError:
        return None  # not representable in PDFDocEncoding: no defined behaviour, skip


def plaintext_objects(seed, cno, r):
    objs = {}
    m = lambda tag: String(("%s-c06-%d-%d" % (tag, cno, r.randrange(10 ** 6))).encode())
    objs[1] = {b"Type": Name(b"Catalog"), b"Pages": Ref(2, 0), b"Metadata": Ref(7, 0)}
    objs[2] = {b"Type": Name(b"Pages"), b"Kids": [Ref(3, 0)], b"Count": 1}
    objs[3] = {b"Type": Name(b"Page"), b"Parent": Ref(2, 0), b"MediaBox": [0, 0, 300, 300], b"Contents": Ref(4, 0),
               b"Resources": {b"Font": {b"F1": Ref(5, 0)}}, b"Annots": [Ref(8, 0)]}
    body = b"BT /F1 12 Tf 50 200 Td (" + m("text").v + b") Tj ET"
    import zlib
    if r.random() < 0.5:
        objs[4] = Stream({b"Filter": Name(b"FlateDecode")}, zlib.compress(body))
    else:
        objs[4] = Stream({}, body)
    objs[5] = {b"Type": Name(b"Font"), b"Subtype": Name(b"Type1"), b"BaseFont": Name(b"Helvetica")}
    objs[6] = {b"Title": m("title"), b"Author": String(b"A\xe9\x80 (x) \\ y"), b"Nested": [m("arr"), {b"Deep": m("deep")}], b"Empty": String(b"")}
    xmp = b"<?xpacket begin='' id='W5M0MpCehiHzreSzNTczkc9d'?><x:xmpmeta xmlns:x='adobe:ns:meta/'>" + m("xmp").v + b"</x:xmpmeta><?xpacket end='w'?>"
    objs[7] = Stream({b"Type": Name(b"Metadata"), b"Subtype": Name(b"XML")}, xmp)
    objs[8] = {b"Type": Name(b"Annot"), b"Subtype": Name(b"Text"), b"Rect": [10, 10, 30, 30], b"Contents": m("annot"), b"T": String(b"\xfe\xff\x00A\x00\xf1")}
    objs[9] = Stream({b"Marker": m("streamdict")}, bytes(r.randrange(256) for _ in range(r.choice([0, 1, 15, 16, 17, 100]))))
    return objs, Ref(6, 0)


def build_encrypted(objs, info, mode, upw, opw, P, em, layout, r, identity_stream=False):
    id0 = bytes(r.randrange(256) for _ in range(16))
    rnd = lambda n: bytes(r.randrange(256) for _ in range(n))
    enc = crypto.Encryptor(mode, upw, opw, P, id0, em, rnd)
    w = pdfgen.Writer(version=b"1.7")
    w.begin()
    nxt = max(objs) + 1
    enc_num = nxt; nxt += 1
    plain = dict(objs)
    if identity_stream and enc.V >= 4:
        # a stream that opts out of encryption through the Identity crypt filter
        plain[nxt] = Stream({b"Filter": [Name(b"Crypt")], b"DecodeParms": [{b"Type": Name(b"CryptFilterDecodeParms"), b"Name": Name(b"Identity")}],
                             b"Marker": String(b"identity-stream-dict")}, b"identity crypt filter: stored in the clear")
        nxt += 1
    compressed_members = []
    for num in sorted(plain):
        o = plain[num]
        if layout == "objstm" and not isinstance(o, Stream):
            compressed_members.append((num, o))      # strings inside an object stream are not encrypted individually
        else:
            if isinstance(o, Stream) and isinstance(o.dict.get(b"Filter"), list) and o.dict[b"Filter"][0] == Name(b"Crypt"):
                eo = Stream({k: enc.encrypt_object(v, num, 0) for k, v in o.dict.items()}, o.raw)
            else:
                eo = enc.encrypt_object(o, num, 0)
            w.put(num, 0, eo)
    if compressed_members:
        stm = nxt; nxt += 1
        # build the object stream in the clear, then encrypt it as a whole
        head = bytearray(); body = bytearray()
        for num, o in compressed_members:
            head += b"%d %d " % (num, len(body)); body += pdfgen.ser(o) + b"\n"
        import zlib
        data = zlib.compress(bytes(head) + bytes(body))
        st = Stream({b"Type": Name(b"ObjStm"), b"N": len(compressed_members), b"First": len(head), b"Filter": Name(b"FlateDecode")}, data)
        w.put(stm, 0, enc.encrypt_object(st, stm, 0))
        for i, (num, _) in enumerate(compressed_members):
            w.rev[num] = ("c", stm, i)
    w.put(enc_num, 0, enc.encrypt_dict())
    ids = [String(id0, True), String(id0, True)]
    if layout == "objstm":
        w.end("stream", Ref(1, 0), info=info, extra={b"Encrypt": Ref(enc_num, 0)}, ids=ids, xref_num=nxt, first=True)
    else:
        w.end("table", Ref(1, 0), info=info, extra={b"Encrypt": Ref(enc_num, 0)}, ids=ids, first=True)
    return w.bytes(), plain


def phase_gen(out, seed, tier, kv):
    d = os.path.join(out, "cases")
    os.makedirs(d, exist_ok=True)
    n = 260 if tier == "quick" else 4000
    with open(os.path.join(d, "cases.jsonl"), "w") as f:
        for c in range(n):
            r = rng(seed, "c06", c)
            mode = MODES[c % len(MODES)]
            ucls = r.choice(list(PW_CLASSES))
            ocls = r.choice([k for k in PW_CLASSES if k != "empty"])
            upw, opw = PW_CLASSES[ucls], PW_CLASSES[ocls] + "-owner"
            ub, ob = pw_bytes(mode, upw), pw_bytes(mode, opw)
            if ub is None or ob is None:
                ucls, ocls = "ascii", "ascii"
                upw, opw = PW_CLASSES["ascii"], "ownerpw"
                ub, ob = pw_bytes(mode, upw), pw_bytes(mode, opw)
            em = True if mode in ("rc4_40", "rc4_128") else r.random() < 0.6
            layout = r.choice(["classic", "objstm"])
            P = r.choice([-1, -4, -3904, -1340, -44]) 
            objs, info = plaintext_objects(seed, c, r)
            ident = r.random() < 0.3
            data, plain = build_encrypted(objs, info, mode, ub, ob, P, em, layout, r, ident)
            fn = "e%06d.pdf" % c
            open(os.path.join(d, fn), "wb").write(data)
            # reference must decrypt its own output (both passwords) before the library is asked
            canon_plain = {str(k): pdf.canon(v) for k, v in plain.items()}
            for which, pw, pwb in (("user", upw, ub), ("owner", opw, ob)):
                f.write(json.dumps({"id": "c06-%d-%s" % (c, which), "file": fn, "presets": ["default", "strict"], "password": pw, "objects": "all",
                                    "max_obj": max(plain), "decode": True, "metadata": True, "mode": mode, "layout": layout, "em": em, "which": which,
                                    "pwclass": ucls if which == "user" else ocls, "pw_hex": pwb.hex(), "P": P, "plain": canon_plain,
                                    "identity_stream": ident and mode in ("rc4_v4", "aes_128", "aes_256")}) + "\n")
            f.write(json.dumps({"id": "c06-%d-wrong" % c, "file": fn, "presets": ["default"], "password": "not-the-password-%d" % c, "objects": [[6, 0]],
                                "mode": mode, "layout": layout, "em": em, "which": "wrong", "pwclass": "wrong", "user_empty": upw == "", "plain": {"6": canon_plain["6"]}}) + "\n")


def phase_check(out, seed, tier, kv):
    rec = Recorder("py")
    d = os.path.join(out, "cases")
    cases = load_cases(d)
    obs = load_obs(out)
    for cid, c in cases.items():
        data = open(os.path.join(d, c["file"]), "rb").read()
        nontrivial = c.get("layout") == "objstm" or (not c.get("em", True)) or c.get("pwclass") not in ("ascii", "empty", "wrong", "long_ascii", "ascii_symbols")
        rec.case(cid, nontrivial=nontrivial)
        rec.set_add("matrix_mode_layout_em_pwclass", "%s|%s|em=%s|%s" % (c["mode"], c["layout"], c.get("em"), c["pwclass"]))
        cls = "%s|%s|em=%s" % (c["mode"], c["layout"], c.get("em"))
        wit = {"case": cid, "seed": seed, "mode": c["mode"], "layout": c["layout"], "em": c.get("em"), "password": c.get("password"), "file_hex": data.hex() if len(data) < 20000 else None}
        if c["which"] != "wrong":
            # harness sanity: the reference decrypts its own file to the plaintext
            try:
                doc = pdf.Document(data, password=bytes.fromhex(c["pw_hex"]))
                for k, v in c["plain"].items():
                    if strip_len(pdf.canon(doc.get(int(k)))) != strip_len(v):
                        raise pdf.PdfError("reference round trip differs at object %s" % k)
            except Exception as e:
                rec.inconc("reference cannot round-trip its own encryption (%s): %s" % (cid, e))
                continue
        for preset, o in obs.get(cid, {}).items():
            rec.count("observations")
            if "panic" in o:
                rec.violation("C06|panic|%s" % o["panic"], "%s: %s" % (cid, o.get("panic_msg")), wit)
                continue
            if o.get("open_err"):
                rec.violation("C06|A|open_fails|%s" % cls, "%s preset %s: %s" % (cid, preset, o["open_err"]), wit)
                continue
            if c["which"] == "wrong" and c.get("user_empty"):
                continue  # an empty user password opens the file for everybody by design
            if c["which"] == "wrong":
                if o.get("unlocked") or o.get("unlock") == "ok":
                    rec.violation("C06|A|wrong_password_accepted|%s" % c["mode"], "%s: a password that is neither user nor owner unlocks the file" % cid, wit)
                got = o.get("objects", {}).get("6 0")
                if got is not None and not (isinstance(got, dict) and "err" in got) and got == c["plain"]["6"]:
                    rec.violation("C06|A|plaintext_readable_while_locked|%s" % c["mode"], "%s: object 6 readable with a wrong password" % cid, wit)
                continue
            if o.get("unlock") != "ok" and not o.get("unlocked"):
                rec.violation("C06|A|correct_password_refused|%s|pw=%s" % (c["mode"], c["pwclass"]),
                              "%s preset %s: unlock(%r) -> %r" % (cid, preset, c["password"], o.get("unlock")), wit)
                continue
            raw_doc = pdf.Document(data, decrypt=False)
            dec_doc = pdf.Document(data, password=bytes.fromhex(c["pw_hex"]))
            for k, want in c["plain"].items():
                got = o.get("objects", {}).get("%s 0" % k)
                try:
                    raw = pdf.canon(raw_doc.get(int(k)))
                except Exception:
                    raw = None
                what = classify(got, want, raw, int(k), dec_doc.decryptor)
                if what is None:
                    continue
                is_stream = isinstance(want, dict) and "st" in want
                where = "object_in_object_stream" if (c["layout"] == "objstm" and not is_stream) else "plain_object"
                special = ""
                if is_stream and want["st"].get(b"Type".hex(), {}).get("n") == b"Metadata".hex() and not c.get("em"):
                    special = "|cleartext_metadata_stream"
                if is_stream and isinstance(want["st"].get(b"Filter".hex()), list):
                    special = "|identity_crypt_filter_stream"
                rec.violation("C06|A|%s|%s|%s%s" % (what, c["mode"], where, special),
                              "%s preset %s (%s password): object %s -> %s; plaintext %s" % (cid, preset, c["which"], k, json.dumps(got)[:160], json.dumps(want)[:160]), wit)
        if len(rec.samples) < 3:
            rec.sample({"case": cid, "mode": c["mode"], "layout": c["layout"], "em": c.get("em"), "pwclass": c["pwclass"]})
    rec.write(out)


if __name__ == "__main__":
    out, seed, tier, kv = args()
    (phase_gen if kv.get("phase") == "gen" else phase_check)(out, seed, tier, kv)
