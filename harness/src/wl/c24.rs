//! C24 — embedded raster images decode to the pixels that were supplied.
//! PNGs come from the harness's own encoder (gen::pnggen: all colour types and depths,
//! Adam7, every row filter, split IDAT, PLTE/tRNS forms); the model's RGBA is first
//! confirmed against the `png` crate, then the image goes through Image::from_png_data,
//! a page, the writer and the reader, and the stored samples (+ /SMask) are compared
//! pixel by pixel. Raw-buffer constructors are compared with the supplied buffer.
use crate::gen::docgen;
use crate::gen::pnggen::{self, PngSpec};
use crate::rec::hex;
use crate::{Ctx, Recorder, Rng};
use oxidize_pdf::graphics::{ColorSpace, Image};
use oxidize_pdf::parser::objects::{PdfDictionary, PdfObject, PdfStream};
use oxidize_pdf::parser::{ParseOptions, PdfReader};
use oxidize_pdf::{Document, Page};
use serde_json::{json, Value};
use std::io::{Cursor, Read};

struct Stored {
    w: u32,
    h: u32,
    cs: String,
    bpc: u32,
    data: Vec<u8>,
    smask: Option<(u32, u32, u32, Vec<u8>)>, // w, h, bpc, data
    extra_keys: Vec<String>,
}

fn name_of(o: Option<&PdfObject>) -> String {
    match o {
        Some(PdfObject::Name(n)) => n.0.clone(),
        Some(PdfObject::Array(a)) => a.0.iter().map(|x| name_of(Some(x))).collect::<Vec<_>>().join(","),
        Some(other) => format!("{other:?}").chars().take(40).collect(),
        None => String::new(),
    }
}

fn stream_bytes(s: &PdfStream, opts: &ParseOptions, rec: &mut Recorder) -> Result<Vec<u8>, String> {
    let f = name_of(s.dict.get("Filter"));
    if f.is_empty() {
        return Ok(s.data.clone());
    }
    if f == "FlateDecode" && s.dict.get("DecodeParms").is_none() {
        let mut out = Vec::new();
        flate2::read::ZlibDecoder::new(&s.data[..]).read_to_end(&mut out).map_err(|e| format!("inflate: {e}"))?;
        return Ok(out);
    }
    rec.count("streams_decoded_by_library_filter_chain");
    s.decode(opts).map_err(|e| format!("decode {f}: {e}"))
}

fn read_back(bytes: &[u8], name: &str, rec: &mut Recorder) -> Result<Stored, String> {
    let reader = PdfReader::new_with_options(Cursor::new(bytes.to_vec()), ParseOptions::strict()).map_err(|e| format!("open: {e}"))?;
    let opts = ParseOptions::strict();
    let doc = reader.into_document();
    let page = doc.get_page(0).map_err(|e| format!("get_page: {e}"))?;
    let res: PdfDictionary = page.get_resources().cloned().ok_or("page without resources")?;
    let resolve = |o: &PdfObject| -> Result<PdfObject, String> {
        match o {
            PdfObject::Reference(n, g) => doc.get_object(*n, *g).map_err(|e| format!("resolve {n} {g}: {e}")),
            other => Ok(other.clone()),
        }
    };
    let xo = resolve(res.get("XObject").ok_or("no /XObject in resources")?)?;
    let xo = xo.as_dict().ok_or("/XObject is not a dictionary")?.clone();
    let im = resolve(xo.get(name).ok_or_else(|| format!("no /{name} in /XObject"))?)?;
    let st = match im {
        PdfObject::Stream(s) => s,
        other => return Err(format!("image is not a stream: {other:?}")),
    };
    let geti = |d: &PdfDictionary, k: &str| d.get(k).and_then(|o| o.as_integer()).unwrap_or(-1);
    let data = stream_bytes(&st, &opts, rec)?;
    let mut smask = None;
    if let Some(sm) = st.dict.get("SMask") {
        match resolve(sm)? {
            PdfObject::Stream(ms) => {
                let md = stream_bytes(&ms, &opts, rec)?;
                if name_of(ms.dict.get("ColorSpace")) != "DeviceGray" {
                    return Err(format!("/SMask colour space {}", name_of(ms.dict.get("ColorSpace"))));
                }
                smask = Some((geti(&ms.dict, "Width") as u32, geti(&ms.dict, "Height") as u32, geti(&ms.dict, "BitsPerComponent") as u32, md));
            }
            other => return Err(format!("/SMask is not a stream: {other:?}")),
        }
    }
    let mut extra = Vec::new();
    for k in ["Decode", "Mask", "ImageMask", "Matte"] {
        if st.dict.get(k).is_some() {
            extra.push(k.to_string());
        }
    }
    Ok(Stored { w: geti(&st.dict, "Width") as u32, h: geti(&st.dict, "Height") as u32, cs: name_of(st.dict.get("ColorSpace")), bpc: geti(&st.dict, "BitsPerComponent") as u32, data, smask, extra_keys: extra })
}

/// sample k (0-based, over the whole row-major stream with rows padded to bytes) -> value scaled to 16 bits
fn sample16(data: &[u8], row_bytes: usize, y: u32, idx_in_row: usize, bpc: u32) -> Option<u16> {
    let row = data.get(y as usize * row_bytes..(y as usize + 1) * row_bytes)?;
    match bpc {
        8 => row.get(idx_in_row).map(|v| *v as u16 * 257),
        16 => Some(u16::from_be_bytes([*row.get(idx_in_row * 2)?, *row.get(idx_in_row * 2 + 1)?])),
        1 | 2 | 4 => {
            let bit = idx_in_row * bpc as usize;
            let b = *row.get(bit / 8)?;
            let v = (b >> (8 - bpc as usize - bit % 8)) & ((1 << bpc) - 1);
            Some((v as u32 * 65535 / ((1u32 << bpc) - 1)) as u16)
        }
        _ => None,
    }
}

fn stored_rgba16(s: &Stored, x: u32, y: u32) -> Option<[u16; 4]> {
    let comps = match s.cs.as_str() {
        "DeviceGray" => 1,
        "DeviceRGB" => 3,
        _ => return None,
    };
    let row_bytes = (s.w as usize * comps * s.bpc as usize + 7) / 8;
    let mut c = [0u16; 3];
    for k in 0..comps {
        c[k] = sample16(&s.data, row_bytes, y, x as usize * comps + k, s.bpc)?;
    }
    let rgb = if comps == 1 { [c[0], c[0], c[0]] } else { c };
    let a = match &s.smask {
        None => 65535,
        Some((mw, mh, mbpc, md)) => {
            if *mw != s.w || *mh != s.h {
                return None;
            }
            sample16(md, (*mw as usize * *mbpc as usize + 7) / 8, y, x as usize, *mbpc)?
        }
    };
    Some([rgb[0], rgb[1], rgb[2], a])
}

/// confirm the generator's model with the png crate; Err = the harness itself is wrong
fn model_check(spec: &PngSpec, png_bytes: &[u8]) -> Result<(), String> {
    let mut dec = png::Decoder::new(Cursor::new(png_bytes));
    dec.set_transformations(png::Transformations::EXPAND);
    let mut reader = dec.read_info().map_err(|e| format!("png crate rejects the generated file: {e}"))?;
    let mut buf = vec![0u8; reader.output_buffer_size().ok_or("no buffer size")?];
    let info = reader.next_frame(&mut buf).map_err(|e| format!("png crate fails on the generated file: {e}"))?;
    let (ct, bd) = (info.color_type, info.bit_depth);
    let ch = ct.samples();
    let bytes_per = if bd == png::BitDepth::Sixteen { 2 } else { 1 };
    for y in 0..spec.h {
        for x in 0..spec.w {
            let off = y as usize * info.line_size + x as usize * ch * bytes_per;
            let get = |k: usize| -> u16 {
                if bytes_per == 2 { u16::from_be_bytes([buf[off + 2 * k], buf[off + 2 * k + 1]]) } else { buf[off + k] as u16 * 257 }
            };
            let got: [u16; 4] = match ct {
                png::ColorType::Grayscale => [get(0), get(0), get(0), 65535],
                png::ColorType::GrayscaleAlpha => [get(0), get(0), get(0), get(1)],
                png::ColorType::Rgb => [get(0), get(1), get(2), 65535],
                png::ColorType::Rgba => [get(0), get(1), get(2), get(3)],
                _ => return Err("unexpected output colour type".into()),
            };
            let want = spec.rgba16(x, y);
            if got != want {
                return Err(format!("model and png crate disagree at ({x},{y}): {got:?} vs {want:?}"));
            }
        }
    }
    Ok(())
}

fn write_doc(img: Image, r: &mut Rng) -> Result<(Vec<u8>, String), String> {
    let mut doc = Document::new();
    let mut page = Page::new(200.0, 200.0);
    page.add_image("Im1", img);
    page.draw_image("Im1", 10.0, 10.0, 100.0, 100.0).map_err(|e| e.to_string())?;
    doc.add_page(page);
    let cfgs = docgen::configs();
    let plain: Vec<usize> = (0..cfgs.len()).filter(|i| !cfgs[*i].1.use_object_streams).collect();
    let (cname, cfg) = cfgs[*r.pick(&plain)].clone();
    docgen::write(&mut doc, cfg).map(|b| (b, cname))
}

pub fn run(ctx: &Ctx, rec: &mut Recorder) -> Result<(), String> {
    let ncases = ctx.qt(3_000u64, 200_000u64);
    for c in 0..ncases {
        if !ctx.mine(c) {
            continue;
        }
        let mut r = Rng::derive(ctx.seed, 24, c);
        rec.evaluations += 1;
        if c % 5 == 4 {
            raw_case(rec, &mut r, c, ctx.seed);
            continue;
        }
        let spec = pnggen::gen_spec(&mut r);
        let png_bytes = pnggen::encode(&spec);
        if let Err(e) = model_check(&spec, &png_bytes) {
            rec.inconclusive(format!("case {c}: {e}"));
            continue;
        }
        let class = format!("ct{}_d{}|{}|{}", spec.color_type, spec.depth, if spec.interlace { "adam7" } else { "plain" }, match (&spec.trns, spec.color_type) {
            (None, _) => "no_trns",
            (Some(_), 3) => "palette_alpha",
            (Some(_), _) => "colour_key",
        });
        rec.set_add("png_classes", class.clone());
        let replay = |what: Value| json!({"case": c, "seed": ctx.seed, "png_hex": hex(&png_bytes), "spec": format!("{:?}", PngSpec { samples: Vec::new(), ..spec.clone() }), "what": what});
        let img = match crate::mon::guarded(|| Image::from_png_data(png_bytes.clone())) {
            Ok(Ok(i)) => i,
            Ok(Err(e)) => {
                rec.violation(format!("C24|png|valid_file_rejected|{class}"), e.to_string(), replay(json!(null)));
                rec.case(&png_bytes, true);
                continue;
            }
            Err(p) => {
                rec.violation(format!("C24|png|panic|{}|{class}", p.site()), p.message.clone(), replay(json!(null)));
                rec.case(&png_bytes, true);
                continue;
            }
        };
        let (bytes, cname) = match crate::mon::guarded(|| write_doc(img, &mut r)) {
            Ok(Ok(x)) => x,
            Ok(Err(e)) => {
                rec.violation(format!("C24|png|write_failed|{class}"), e, replay(json!(null)));
                continue;
            }
            Err(p) => {
                rec.violation(format!("C24|png|panic|writer|{}", p.site()), p.message.clone(), replay(json!(null)));
                continue;
            }
        };
        let stored = match crate::mon::guarded(|| read_back(&bytes, "Im1", rec)) {
            Ok(Ok(s)) => s,
            Ok(Err(e)) => {
                rec.violation(format!("C24|png|written_image_unreadable|{class}"), e, replay(json!({"config": cname, "pdf_hex": if bytes.len() < 20000 { json!(hex(&bytes)) } else { Value::Null }})));
                continue;
            }
            Err(p) => {
                rec.violation(format!("C24|png|panic|reader|{}", p.site()), p.message.clone(), replay(json!({"config": cname})));
                continue;
            }
        };
        rec.case(&png_bytes, true);
        if !stored.extra_keys.is_empty() {
            rec.inconclusive(format!("case {c}: image dictionary uses {:?}, which this monitor does not interpret", stored.extra_keys));
            continue;
        }
        if stored.w != spec.w || stored.h != spec.h {
            rec.violation(format!("C24|png|size_differs|{class}"), format!("{}x{} stored for a {}x{} image", stored.w, stored.h, spec.w, spec.h), replay(json!({"config": cname})));
            continue;
        }
        let sixteen = spec.depth == 16;
        if sixteen && stored.bpc < 16 {
            rec.violation(format!("C24|png16|stored_at_{}_bits_per_component", stored.bpc), "a 16-bit PNG keeps only the high byte of every sample", replay(json!({"config": cname})));
        }
        let tol: i32 = if sixteen && stored.bpc < 16 { 257 + 1 } else { 0 };
        let mut bad: Option<(String, String)> = None;
        'px: for y in 0..spec.h {
            for x in 0..spec.w {
                let want = spec.rgba16(x, y);
                let got = match stored_rgba16(&stored, x, y) {
                    Some(g) => g,
                    None => {
                        bad = Some(("stored_samples_unreadable".into(), format!("at ({x},{y}): colour space {} bpc {} data {} bytes smask {:?}", stored.cs, stored.bpc, stored.data.len(), stored.smask.as_ref().map(|s| (s.0, s.1, s.2, s.3.len())))));
                        break 'px;
                    }
                };
                rec.count("pixels_compared");
                let d = |a: u16, b: u16| (a as i32 - b as i32).abs();
                // colour of a fully transparent pixel is still the supplied colour; compare it too
                if d(want[0], got[0]) > tol || d(want[1], got[1]) > tol || d(want[2], got[2]) > tol {
                    bad = Some(("colour_differs".into(), format!("pixel ({x},{y}): supplied {:?}, stored {:?}", want, got)));
                    break 'px;
                }
                if d(want[3], got[3]) > tol {
                    let what = if stored.smask.is_none() { "alpha_lost_no_smask" } else { "alpha_differs" };
                    bad = Some((what.into(), format!("pixel ({x},{y}): supplied {:?}, stored {:?}", want, got)));
                    break 'px;
                }
            }
        }
        if let Some((what, detail)) = bad {
            rec.violation(format!("C24|png|{what}|{class}"), detail, replay(json!({"config": cname, "stored": {"cs": stored.cs, "bpc": stored.bpc, "smask": stored.smask.is_some()}})));
        }
        if rec.samples.len() < 2 {
            rec.sample(json!({"case": c, "class": class, "w": spec.w, "h": spec.h, "png_len": png_bytes.len(), "config": cname}));
        }
    }
    Ok(())
}

fn raw_case(rec: &mut Recorder, r: &mut Rng, c: u64, seed: u64) {
    let w = *r.pick(&[1u32, 2, 3, 7, 8, 9, 17]);
    let h = *r.pick(&[1u32, 2, 5, 9]);
    let kind = r.below(3);
    let (label, img, want_cs, want_bpc, want_data, want_alpha): (String, Result<Image, String>, &str, u32, Vec<u8>, Option<Vec<u8>>) = match kind {
        0 => {
            let (cs, csn, comps) = *r.pick(&[(ColorSpace::DeviceGray, "DeviceGray", 1usize), (ColorSpace::DeviceRGB, "DeviceRGB", 3), (ColorSpace::DeviceCMYK, "DeviceCMYK", 4)]);
            let bpc = *r.pick(&[1u8, 2, 4, 8, 8, 16]);
            let row = (w as usize * comps * bpc as usize + 7) / 8;
            let data = r.bytes(row * h as usize);
            (format!("from_raw_data|{csn}|bpc{bpc}"), Ok(Image::from_raw_data(data.clone(), w, h, cs, bpc)), csn, bpc as u32, data, None)
        }
        1 => {
            let data = r.bytes((w * h * 4) as usize);
            let rgb: Vec<u8> = data.chunks(4).flat_map(|p| [p[0], p[1], p[2]]).collect();
            let alpha: Vec<u8> = data.chunks(4).map(|p| p[3]).collect();
            ("from_rgba_data".into(), Image::from_rgba_data(data, w, h).map_err(|e| e.to_string()), "DeviceRGB", 8, rgb, Some(alpha))
        }
        _ => {
            let data = r.bytes((w * h) as usize);
            ("from_gray_data".into(), Image::from_gray_data(data.clone(), w, h).map_err(|e| e.to_string()), "DeviceGray", 8, data, None)
        }
    };
    rec.set_add("raw_classes", label.clone());
    let replay = |what: Value| json!({"case": c, "seed": seed, "api": label, "w": w, "h": h, "supplied_hex": hex(&want_data), "what": what});
    let img = match img {
        Ok(i) => i,
        Err(e) => {
            rec.violation(format!("C24|raw|constructor_rejects_well_sized_buffer|{label}"), e, replay(json!(null)));
            return;
        }
    };
    let (bytes, cname) = match crate::mon::guarded(|| write_doc(img, r)) {
        Ok(Ok(x)) => x,
        Ok(Err(e)) => {
            rec.violation(format!("C24|raw|write_failed|{label}"), e, replay(json!(null)));
            return;
        }
        Err(p) => {
            rec.violation(format!("C24|raw|panic|writer|{}", p.site()), p.message.clone(), replay(json!(null)));
            return;
        }
    };
    let stored = match crate::mon::guarded(|| read_back(&bytes, "Im1", rec)) {
        Ok(Ok(s)) => s,
        Ok(Err(e)) => {
            rec.violation(format!("C24|raw|written_image_unreadable|{label}"), e, replay(json!({"config": cname})));
            return;
        }
        Err(p) => {
            rec.violation(format!("C24|raw|panic|reader|{}", p.site()), p.message.clone(), replay(json!({"config": cname})));
            return;
        }
    };
    rec.case(format!("raw{c}").as_bytes(), true);
    if stored.w != w || stored.h != h || stored.cs != want_cs || stored.bpc != want_bpc {
        rec.violation(format!("C24|raw|dictionary_differs|{label}"), format!("stored {}x{} {} bpc {}, supplied {w}x{h} {want_cs} bpc {want_bpc}", stored.w, stored.h, stored.cs, stored.bpc), replay(json!({"config": cname})));
        return;
    }
    if stored.data != want_data {
        rec.violation(format!("C24|raw|samples_differ|{label}"), format!("stored {} bytes, supplied {} bytes", stored.data.len(), want_data.len()), replay(json!({"config": cname, "stored_hex": hex(&stored.data[..stored.data.len().min(400)])})));
        return;
    }
    match (want_alpha, &stored.smask) {
        (Some(a), Some((mw, mh, mb, md))) => {
            if *mw != w || *mh != h || *mb != 8 || *md != a {
                rec.violation(format!("C24|raw|alpha_differs|{label}"), "soft mask differs from the supplied alpha channel", replay(json!({"config": cname})));
            }
        }
        (Some(_), None) => rec.violation(format!("C24|raw|alpha_lost_no_smask|{label}"), "no /SMask written", replay(json!({"config": cname}))),
        (None, Some(_)) => rec.violation(format!("C24|raw|unexpected_smask|{label}"), "an /SMask appeared for an opaque image", replay(json!({"config": cname}))),
        (None, None) => {}
    }
    rec.count("raw_images_compared");
}
