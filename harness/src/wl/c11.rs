//! C11 — text extraction conserves every drawn character.
//! Pages are generated directly as PDF syntax (gen::rawpdf, not the library's
//! writer) over the whole text-operator vocabulary, with simple and composite
//! fonts, nested form XObjects and marked content. The generator's list of shown
//! strings is the model; the monitor compares the multiset of non-whitespace
//! characters of TextExtractor::extract_from_page(..).text with it under the
//! default options, every single-option flip and sampled combinations.
use crate::gen::rawpdf::RawPdf;
use crate::rec::hex;
use crate::{Ctx, Recorder, Rng};
use oxidize_pdf::parser::{ParseOptions, PdfReader};
use oxidize_pdf::text::{ExtractionOptions, TextExtractor};
use serde_json::{json, Value};
use std::collections::BTreeMap;
use std::io::Cursor;

#[derive(Clone)]
struct FontDef {
    kind: &'static str,
    obj: u32,
    /// (code bytes, unicode it stands for)
    alphabet: Vec<(Vec<u8>, String)>,
    composite: bool,
}

#[derive(Clone, Debug)]
struct Item {
    text: String,
    op: &'static str,
    font: &'static str,
    ctx: String,
    mark: &'static str, // none | mcid | artifact | actualtext_replaced (original glyphs) | actualtext (the replacement)
    geom: &'static str,
}

const WIN: &[(u8, char)] = &[(0xE9, 'é'), (0xFC, 'ü'), (0xF1, 'ñ'), (0xDF, 'ß'), (0xC5, 'Å'), (0xE7, 'ç'), (0xD8, 'Ø'), (0xA9, '©')];
const MAC: &[(u8, char)] = &[(0x8E, 'é'), (0x9F, 'ü'), (0x96, 'ñ'), (0xA7, 'ß'), (0x81, 'Å'), (0x8D, 'ç'), (0xAF, 'Ø'), (0xA9, '©')];

fn ascii_alphabet() -> Vec<(Vec<u8>, String)> {
    "abcdefghijklmnopqrstuvwxyzABCDEFGHIJKLMNOPQRSTUVWXYZ0123456789".bytes().map(|b| (vec![b], (b as char).to_string())).collect()
}

fn make_fonts(r: &mut Rng, pdf: &mut RawPdf) -> Vec<FontDef> {
    let mut v = Vec::new();
    // WinAnsi
    let mut a = ascii_alphabet();
    a.extend(WIN.iter().map(|(b, c)| (vec![*b], c.to_string())));
    let o = pdf.add("<< /Type /Font /Subtype /Type1 /BaseFont /Helvetica /Encoding /WinAnsiEncoding >>");
    v.push(FontDef { kind: "type1_winansi", obj: o, alphabet: a, composite: false });
    // MacRoman
    let mut a = ascii_alphabet();
    a.extend(MAC.iter().map(|(b, c)| (vec![*b], c.to_string())));
    let o = pdf.add("<< /Type /Font /Subtype /Type1 /BaseFont /Times-Roman /Encoding /MacRomanEncoding >>");
    v.push(FontDef { kind: "type1_macroman", obj: o, alphabet: a, composite: false });
    // Differences on top of WinAnsi
    let mut a = ascii_alphabet();
    a.retain(|(c, _)| c[0] != b'Q' && c[0] != b'X');
    a.push((vec![b'Q'], "é".into()));
    a.push((vec![b'X'], "€".into()));
    a.push((vec![0x90], "ñ".into()));
    let o = pdf.add("<< /Type /Font /Subtype /Type1 /BaseFont /Courier /Encoding << /Type /Encoding /BaseEncoding /WinAnsiEncoding /Differences [81 /eacute 88 /Euro 144 /ntilde] >> >>");
    v.push(FontDef { kind: "type1_differences", obj: o, alphabet: a, composite: false });
    // Type0 / Identity-H with a generated ToUnicode
    let pool: Vec<&str> = vec!["a", "b", "c", "d", "e", "f", "g", "h", "k", "m", "R", "S", "T", "7", "8", "9", "Ω", "λ", "π", "Ж", "я", "中", "文", "字", "あ", "ん", "é", "ß", "😀", "𝒳", "ffi", "st"];
    let mut alphabet = Vec::new();
    let mut used = std::collections::HashSet::new();
    let mut bfchar = String::new();
    for u in &pool {
        let mut cid;
        loop {
            cid = 1 + r.below(0xFFF0) as u16;
            if !(0x0100..0x011A).contains(&cid) && used.insert(cid) {
                break;
            }
        }
        let code = cid.to_be_bytes().to_vec();
        let dst: String = u.encode_utf16().map(|x| format!("{x:04X}")).collect();
        bfchar.push_str(&format!("<{:04X}> <{}>\n", cid, dst));
        alphabet.push((code, u.to_string()));
    }
    // a bfrange: CIDs 0x0100.. -> 'n'..'z'
    for (i, ch) in ('n'..='z').enumerate() {
        alphabet.push(((0x0100u16 + i as u16).to_be_bytes().to_vec(), ch.to_string()));
    }
    let cmap = format!(
        "/CIDInit /ProcSet findresource begin\n12 dict begin\nbegincmap\n/CIDSystemInfo << /Registry (Adobe) /Ordering (UCS) /Supplement 0 >> def\n/CMapName /Adobe-Identity-UCS def\n/CMapType 2 def\n1 begincodespacerange\n<0000> <FFFF>\nendcodespacerange\n{} beginbfchar\n{}endbfchar\n1 beginbfrange\n<0100> <010C> <006E>\nendbfrange\nendcmap\nCMapName currentdict /CMap defineresource pop\nend\nend\n",
        pool.len(),
        bfchar
    );
    let tu = pdf.add_stream("", cmap.as_bytes());
    let fd = pdf.add("<< /Type /FontDescriptor /FontName /AAAAAA+Gen /Flags 4 /FontBBox [0 -200 1000 900] /ItalicAngle 0 /Ascent 900 /Descent -200 /CapHeight 700 /StemV 80 >>");
    let desc = pdf.add(format!("<< /Type /Font /Subtype /CIDFontType2 /BaseFont /AAAAAA+Gen /CIDSystemInfo << /Registry (Adobe) /Ordering (Identity) /Supplement 0 >> /DW 600 /FontDescriptor {fd} 0 R /CIDToGIDMap /Identity >>"));
    let o = pdf.add(format!("<< /Type /Font /Subtype /Type0 /BaseFont /AAAAAA+Gen /Encoding /Identity-H /DescendantFonts [{desc} 0 R] /ToUnicode {tu} 0 R >>"));
    v.push(FontDef { kind: "type0_identity_tounicode", obj: o, alphabet, composite: true });
    v
}

thread_local! {
    /// glyphs without a ToUnicode entry written into the page being generated
    static UNMAPPED: std::cell::Cell<u32> = const { std::cell::Cell::new(0) };
    /// marked-content scope the generator is currently inside (no unmapped glyphs inside ActualText spans)
    static IN_ACTUALTEXT: std::cell::Cell<bool> = const { std::cell::Cell::new(false) };
}

/// a random string in the font's alphabet: (bytes as they go into the content stream operand, unicode)
fn gen_str(r: &mut Rng, f: &FontDef, n: usize) -> (Vec<u8>, String) {
    let mut bytes = Vec::new();
    let mut s = String::new();
    for _ in 0..n {
        if f.composite && !IN_ACTUALTEXT.with(|c| c.get()) && r.chance(1, 12) {
            UNMAPPED.with(|c| c.set(c.get() + 1));
            // a glyph without a ToUnicode entry: it contributes no character (or U+FFFD),
            // and the codes after it must still be read at the right 2-byte boundaries
            loop {
                let cid = (1 + r.below(0xFFF0) as u16).to_be_bytes().to_vec();
                if !f.alphabet.iter().any(|(c, _)| *c == cid) {
                    bytes.extend_from_slice(&cid);
                    break;
                }
            }
            continue;
        }
        let (c, u) = r.pick(&f.alphabet);
        bytes.extend_from_slice(c);
        s.push_str(u);
    }
    (bytes, s)
}

fn pdf_string(r: &mut Rng, bytes: &[u8], composite: bool) -> String {
    if composite || r.chance(1, 4) {
        let h = hex(bytes);
        return if r.chance(1, 5) { format!("<{}>", h.to_uppercase()) } else { format!("<{h}>") };
    }
    let mut s = String::from("(");
    for &b in bytes {
        match b {
            b'(' | b')' | b'\\' => {
                s.push('\\');
                s.push(b as char);
            }
            0x20..=0x7E => {
                if r.chance(1, 25) {
                    s.push_str(&format!("\\{:03o}", b));
                } else {
                    s.push(b as char);
                }
            }
            _ => s.push_str(&format!("\\{:03o}", b)),
        }
    }
    s.push(')');
    s
}

struct Scope<'a> {
    fonts: &'a [FontDef],
    /// resource name -> index into fonts, for this resource dictionary
    names: Vec<(String, usize)>,
    ctx: String,
}

struct Block {
    bytes: Vec<u8>,
    items: Vec<Item>,
    /// vertical extent in the coordinate system the block is written in
    height: f64,
    ops: Vec<&'static str>,
}

fn num(v: f64) -> String {
    let s = format!("{v:.3}");
    let s = s.trim_end_matches('0').trim_end_matches('.').to_string();
    if s.is_empty() || s == "-" { "0".into() } else { s }
}

fn gen_block(r: &mut Rng, sc: &Scope, x: f64, y_top: f64, mcid: &mut u32) -> Block {
    let mut out = String::new();
    let mut items: Vec<Item> = Vec::new();
    let mut ops: Vec<&'static str> = Vec::new();
    let size = *r.pick(&[8.0, 10.0, 12.0, 14.0]);
    let geom: &'static str = match r.below(16) {
        0 => "rotated90",
        1 => "mirrored",
        2 | 3 => "tm_scaled",
        4 | 5 => "cm_scaled",
        6 => "cm_translated",
        _ => "plain",
    };
    let (tm_s, cm_s): (f64, f64) = match geom {
        "tm_scaled" => (*r.pick(&[0.5, 2.0, 1.5]), 1.0),
        "cm_scaled" => (1.0, *r.pick(&[0.8, 1.5, 2.0])),
        _ => (1.0, 1.0),
    };
    let nlines = if geom == "rotated90" || geom == "mirrored" { 1 } else { r.urange(1, 4) };
    let lead = size * 1.5; // text-space leading
    let dev_lead = lead * tm_s * cm_s;
    let use_q = geom.starts_with("cm") || r.chance(1, 3);
    if use_q {
        out.push_str("q\n");
        ops.push("q");
    }
    // local origin of the first baseline
    let (bx, by) = (x, y_top - size * tm_s * cm_s);
    let (lx, ly) = match geom {
        "cm_scaled" => {
            out.push_str(&format!("{} 0 0 {} {} {} cm\n", num(cm_s), num(cm_s), num(bx), num(by)));
            ops.push("cm");
            (0.0, 0.0)
        }
        "cm_translated" => {
            out.push_str(&format!("1 0 0 1 {} {} cm\n", num(bx - 10.0), num(by - 5.0)));
            ops.push("cm");
            (10.0, 5.0)
        }
        _ => (bx, by),
    };
    out.push_str("BT\n");
    ops.push("BT");
    let (mut fname, mut fi) = r.pick(&sc.names).clone();
    out.push_str(&format!("/{fname} {} Tf\n", num(size)));
    ops.push("Tf");
    // text state
    if r.chance(1, 3) {
        out.push_str(&format!("{} Tc\n", num(*r.pick(&[0.5, 1.0, -0.2, 2.0]))));
        ops.push("Tc");
    }
    if r.chance(1, 3) {
        out.push_str(&format!("{} Tw\n", num(*r.pick(&[1.0, 3.0, -0.5]))));
        ops.push("Tw");
    }
    if r.chance(1, 4) {
        out.push_str(&format!("{} Tz\n", num(*r.pick(&[50.0, 80.0, 120.0, 150.0]))));
        ops.push("Tz");
    }
    if r.chance(1, 5) {
        out.push_str(&format!("{} Ts\n", num(*r.pick(&[2.0, -2.0, 4.0]))));
        ops.push("Ts");
    }
    if r.chance(1, 5) {
        out.push_str(&format!("{} Tr\n", r.below(8)));
        ops.push("Tr");
    }
    out.push_str(&format!("{} TL\n", num(lead)));
    ops.push("TL");
    match geom {
        "rotated90" => {
            out.push_str(&format!("0 1 -1 0 {} {} Tm\n", num(lx), num(ly - 70.0)));
            ops.push("Tm");
        }
        "mirrored" => {
            out.push_str(&format!("1 0 0 -1 {} {} Tm\n", num(lx), num(ly)));
            ops.push("Tm");
        }
        "tm_scaled" => {
            out.push_str(&format!("{} 0 0 {} {} {} Tm\n", num(tm_s), num(tm_s), num(lx), num(ly)));
            ops.push("Tm");
        }
        _ => {
            if r.bool() {
                out.push_str(&format!("1 0 0 1 {} {} Tm\n", num(lx), num(ly)));
                ops.push("Tm");
            } else {
                out.push_str(&format!("{} {} Td\n", num(lx), num(ly)));
                ops.push("Td");
            }
        }
    }
    for line in 0..nlines {
        // marked content around this line?
        let mark: &'static str = match r.below(12) {
            0 => "artifact",
            1 => "actualtext",
            2 => "mcid",
            _ => "none",
        };
        let mut replacement = String::new();
        IN_ACTUALTEXT.with(|c| c.set(mark == "actualtext"));
        match mark {
            "artifact" => {
                if r.bool() {
                    out.push_str("/Artifact BMC\n");
                    ops.push("BMC");
                } else {
                    out.push_str("/Artifact << /Type /Pagination >> BDC\n");
                    ops.push("BDC");
                }
            }
            "actualtext" => {
                replacement = match r.below(3) {
                    0 => format!("R{}x", r.below(1000)),
                    1 => "Ωmega".to_string(),
                    _ => "fin".to_string(),
                };
                let enc = if replacement.is_ascii() && r.bool() {
                    format!("({replacement})")
                } else {
                    format!("<FEFF{}>", replacement.encode_utf16().map(|u| format!("{u:04X}")).collect::<String>())
                };
                out.push_str(&format!("/Span << /ActualText {enc} >> BDC\n"));
                ops.push("BDC");
            }
            "mcid" => {
                out.push_str(&format!("/P << /MCID {} >> BDC\n", *mcid));
                *mcid += 1;
                ops.push("BDC");
            }
            _ => {}
        }
        // how this line is reached and shown
        let n = r.urange(1, 7);
        let f = &sc.fonts[fi];
        let (b, s) = gen_str(r, f, n);
        let ps = pdf_string(r, &b, f.composite);
        let mut line_items: Vec<(String, &'static str, &'static str)> = Vec::new();
        if line == 0 {
            if r.bool() {
                out.push_str(&format!("{ps} Tj\n"));
                line_items.push((s, "Tj", f.kind));
            } else {
                let n2 = r.urange(1, 4);
                let (b2, s2) = gen_str(r, f, n2);
                let ps2 = pdf_string(r, &b2, f.composite);
                out.push_str(&format!("[{ps} {} {ps2} {}] TJ\n", num(*r.pick(&[-300.0, -120.0, 40.0, -1000.0, 0.0])), num(*r.pick(&[10.0, -20.0]))));
                line_items.push((format!("{s}{s2}"), "TJ", f.kind));
            }
        } else {
            match r.below(6) {
                0 => {
                    out.push_str(&format!("T*\n{ps} Tj\n"));
                    ops.push("T*");
                    line_items.push((s, "Tj", f.kind));
                }
                1 => {
                    out.push_str(&format!("{ps} '\n"));
                    line_items.push((s, "'", f.kind));
                }
                2 => {
                    out.push_str(&format!("{} {} {ps} \"\n", num(*r.pick(&[0.0, 1.0, 2.0])), num(*r.pick(&[0.0, 0.5]))));
                    line_items.push((s, "\"", f.kind));
                }
                3 => {
                    out.push_str(&format!("0 {} Td\n{ps} Tj\n", num(-lead)));
                    ops.push("Td");
                    line_items.push((s, "Tj", f.kind));
                }
                4 => {
                    out.push_str(&format!("0 {} TD\n{ps} Tj\n", num(-lead)));
                    ops.push("TD");
                    line_items.push((s, "Tj", f.kind));
                }
                _ => {
                    let n2 = r.urange(1, 4);
                let (b2, s2) = gen_str(r, f, n2);
                    let ps2 = pdf_string(r, &b2, f.composite);
                    out.push_str(&format!("T*\n[{} {ps} {} {ps2}] TJ\n", num(-50.0), num(*r.pick(&[-250.0, 15.0]))));
                    ops.push("T*");
                    line_items.push((format!("{s}{s2}"), "TJ", f.kind));
                }
            }
        }
        // sometimes a second show on the same line, possibly after a font switch
        if r.chance(1, 4) {
            if r.chance(1, 2) && sc.names.len() > 1 {
                let (nf, ni) = r.pick(&sc.names).clone();
                fname = nf;
                fi = ni;
                out.push_str(&format!("/{fname} {} Tf\n", num(size)));
            }
            let f2 = &sc.fonts[fi];
            let n3 = r.urange(1, 5);
            let (b3, s3) = gen_str(r, f2, n3);
            out.push_str(&format!("{} Tj\n", pdf_string(r, &b3, f2.composite)));
            line_items.push((s3, "Tj", f2.kind));
        }
        for (t, op, fk) in &line_items {
            ops.push(op);
            items.push(Item { text: t.clone(), op, font: fk, ctx: sc.ctx.clone(), mark: if mark == "actualtext" { "actualtext_replaced" } else { mark }, geom });
        }
        if mark == "actualtext" {
            items.push(Item { text: replacement, op: "BDC", font: "-", ctx: sc.ctx.clone(), mark: "actualtext", geom });
        }
        if mark != "none" {
            out.push_str("EMC\n");
            ops.push("EMC");
        }
        IN_ACTUALTEXT.with(|c| c.set(false));
    }
    out.push_str("ET\n");
    ops.push("ET");
    if use_q {
        out.push_str("Q\n");
        ops.push("Q");
    }
    let height = match geom {
        "rotated90" => 90.0,
        _ => dev_lead * nlines as f64 + size * tm_s * cm_s + 6.0,
    };
    Block { bytes: out.into_bytes(), items, height, ops }
}

fn font_res(names: &[(String, usize)], fonts: &[FontDef]) -> String {
    let mut s = String::from("<< ");
    for (n, i) in names {
        s.push_str(&format!("/{n} {} 0 R ", fonts[*i].obj));
    }
    s.push_str(">>");
    s
}

fn scope_names(r: &mut Rng, fonts: &[FontDef], prefix: &str) -> Vec<(String, usize)> {
    // the same resource names in every scope, bound to different fonts: a resolver that
    // looks names up in the wrong dictionary decodes with the wrong font
    let mut idx: Vec<usize> = (0..fonts.len()).collect();
    r.shuffle(&mut idx);
    let k = r.urange(2, fonts.len());
    idx.truncate(k);
    idx.iter().enumerate().map(|(i, f)| (format!("{prefix}{}", i + 1), *f)).collect()
}

struct PageModel {
    unmapped: u32,
    pdf: Vec<u8>,
    items: Vec<Item>,
    ops: Vec<&'static str>,
    content: Vec<u8>,
}

fn gen_page(r: &mut Rng) -> PageModel {
    UNMAPPED.with(|c| c.set(0));
    let mut pdf = RawPdf::new();
    let catalog = pdf.reserve();
    let pages = pdf.reserve();
    let page = pdf.reserve();
    let fonts = make_fonts(r, &mut pdf);
    let page_names = scope_names(r, &fonts, "F");
    let page_scope = Scope { fonts: &fonts, names: page_names.clone(), ctx: "page".into() };
    let mut content: Vec<u8> = Vec::new();
    let mut items = Vec::new();
    let mut ops: Vec<&'static str> = Vec::new();
    let mut xobjects: Vec<(String, u32)> = Vec::new();
    let mut y = 770.0;
    let mut mcid = 0u32;
    let nblocks = r.urange(1, 9);
    for bi in 0..nblocks {
        if y < 140.0 {
            break;
        }
        let x = 40.0 + r.below(200) as f64;
        if r.chance(1, 4) {
            // a form XObject holding one or two blocks, possibly with a nested form
            let depth = if r.chance(1, 3) { 2 } else { 1 };
            let mut inner_ref: Option<(String, u32, f64)> = None;
            let mut total_h = 0.0;
            let same_name_as_child = depth > 1 && !xobjects.iter().any(|(n, _)| n == "Sub") && r.bool();
            for d in (1..=depth).rev() {
                let names = scope_names(r, &fonts, "F");
                let sc = Scope { fonts: &fonts, names: names.clone(), ctx: format!("form_depth{d}") };
                let mut body: Vec<u8> = Vec::new();
                let mut h = 0.0;
                let nb = r.urange(1, 2);
                let mut blocks = Vec::new();
                for _ in 0..nb {
                    let bx = 5.0 + r.below(40) as f64;
                    let b = gen_block(r, &Scope { fonts: sc.fonts, names: sc.names.clone(), ctx: sc.ctx.clone() }, bx, 0.0, &mut mcid);
                    h += b.height;
                    blocks.push(b);
                }
                // lay the blocks out bottom-up inside the form: block k's top at local y
                let mut top = h;
                for b in blocks {
                    // blocks were generated with y_top = 0: shift them with a cm
                    body.extend_from_slice(format!("q 1 0 0 1 0 {} cm\n", num(top)).as_bytes());
                    body.extend_from_slice(&b.bytes);
                    body.extend_from_slice(b"Q\n");
                    top -= b.height;
                    items.extend(b.items);
                    ops.extend(b.ops);
                    ops.push("cm");
                }
                let mut xo = String::new();
                if let Some((n, o, ih)) = &inner_ref {
                    body.extend_from_slice(format!("q 1 0 0 1 150 {} cm /{n} Do Q\n", num(0.0)).as_bytes());
                    xo = format!("/XObject << /{n} {o} 0 R >>");
                    h = h.max(*ih);
                    ops.push("Do");
                }
                let res = format!("<< /Font {} {xo} >>", font_res(&names, &fonts));
                let fo = pdf.add_stream(&format!("/Type /XObject /Subtype /Form /BBox [0 -20 612 792] /Resources {res}"), &body);
                // XObject names are local to a resource dictionary: the nested form is called "Sub" under
                // every parent (different forms, same name), and the outermost form is sometimes also called
                // "Sub" on the page, so that one name means different forms in nested scopes
                let nm = if d > 1 || same_name_as_child { "Sub".to_string() } else { format!("Fm{bi}") };
                inner_ref = Some((nm, fo, h));
                total_h = h;
            }
            let (n, o, _) = inner_ref.unwrap();
            let ty = y - total_h;
            content.extend_from_slice(format!("q 1 0 0 1 {} {} cm /{n} Do Q\n", num(x.min(120.0)), num(ty)).as_bytes());
            ops.push("Do");
            xobjects.push((n, o));
            y = ty - 10.0;
        } else {
            let b = gen_block(r, &page_scope, x, y, &mut mcid);
            if b.bytes.windows(9).any(|w| w == b"0 1 -1 0 ") {
                // rotated text runs upwards from its origin: give it room
            }
            content.extend_from_slice(&b.bytes);
            items.extend(b.items);
            ops.extend(b.ops);
            y -= b.height + 8.0;
        }
    }
    let split = r.chance(1, 4) && content.len() > 40;
    let contents_ref = if split {
        // the content divided into two streams at a line boundary between operators
        let mid = content[..content.len() / 2].iter().rposition(|b| *b == b'\n').map(|p| p + 1).unwrap_or(0);
        // the streams of a /Contents array form one stream with the boundary acting as white space
        // (ISO 32000-1 7.8.2): half of the time the first part ends right after its last operator
        let first_end = if mid > 0 && r.bool() { mid - 1 } else { mid };
        let a = pdf.add_stream("", &content[..first_end]);
        let b = pdf.add_stream("", &content[mid..]);
        format!("[{a} 0 R {b} 0 R]")
    } else {
        let a = pdf.add_stream("", &content);
        format!("{a} 0 R")
    };
    let xo = if xobjects.is_empty() { String::new() } else { format!("/XObject << {} >>", xobjects.iter().map(|(n, o)| format!("/{n} {o} 0 R")).collect::<Vec<_>>().join(" ")) };
    pdf.set(page, format!("<< /Type /Page /Parent {pages} 0 R /MediaBox [0 0 612 792] /Resources << /Font {} {xo} >> /Contents {contents_ref} >>", font_res(&page_names, &fonts)).into_bytes());
    pdf.set(pages, format!("<< /Type /Pages /Kids [{page} 0 R] /Count 1 >>").into_bytes());
    pdf.set(catalog, format!("<< /Type /Catalog /Pages {pages} 0 R >>").into_bytes());
    PageModel { unmapped: UNMAPPED.with(|c| c.get()), pdf: pdf.finish(catalog), items, ops, content }
}

const FLAGS: [&str; 8] = ["preserve_layout", "sort_by_position_off", "detect_columns", "merge_hyphenated_off", "reconstruct_paragraphs", "include_artifacts", "reorder_columns", "track_space_decisions"];

fn options(mask: u32, r: Option<&mut Rng>) -> ExtractionOptions {
    let mut o = ExtractionOptions::default();
    o.preserve_layout = mask & 1 != 0;
    o.sort_by_position = mask & 2 == 0;
    o.detect_columns = mask & 4 != 0;
    o.merge_hyphenated = mask & 8 == 0;
    o.reconstruct_paragraphs = mask & 16 != 0;
    o.include_artifacts = mask & 32 != 0;
    o.reorder_columns = mask & 64 != 0;
    o.track_space_decisions = mask & 128 != 0;
    if let Some(r) = r {
        o.space_threshold = *r.pick(&[0.3, 0.1, 1.0]);
        o.tj_space_threshold = *r.pick(&[0.2, 0.05, 0.5]);
        o.newline_threshold = *r.pick(&[10.0, 2.0, 30.0]);
        o.column_threshold = *r.pick(&[50.0, 10.0, 200.0]);
    }
    o
}

fn flag_names(mask: u32) -> String {
    let v: Vec<&str> = (0..8).filter(|i| mask & (1 << i) != 0).map(|i| FLAGS[i]).collect();
    if v.is_empty() { "default".into() } else { v.join("+") }
}

fn nows(s: &str) -> String {
    s.chars().filter(|c| !c.is_whitespace()).collect()
}

/// (signature tail, detail) or None when the multisets agree
fn judge(items: &[Item], text: &str, include_artifacts: bool, unmapped: u32) -> Option<(String, String)> {
    let mut want: BTreeMap<char, i64> = BTreeMap::new();
    for it in items {
        let counted = match it.mark {
            "artifact" => include_artifacts,
            "actualtext_replaced" => false,
            _ => true,
        };
        if counted {
            for c in it.text.chars().filter(|c| !c.is_whitespace()) {
                *want.entry(c).or_insert(0) += 1;
            }
        }
    }
    let mut got: BTreeMap<char, i64> = BTreeMap::new();
    for c in text.chars().filter(|c| !c.is_whitespace() && *c != '\u{FFFD}') {
        *got.entry(c).or_insert(0) += 1;
    }
    if want == got {
        return None;
    }
    let mut missing = String::new();
    let mut extra = String::new();
    let keys: std::collections::BTreeSet<char> = want.keys().chain(got.keys()).copied().collect();
    for k in keys {
        let d = got.get(&k).copied().unwrap_or(0) - want.get(&k).copied().unwrap_or(0);
        for _ in 0..d.abs().min(6) {
            if d < 0 { missing.push(k) } else { extra.push(k) }
        }
    }
    // A glyph without a ToUnicode entry has no character to conserve; the extractor may drop it,
    // write U+FFFD, or fall back to the bytes of its code (at most two characters per code).
    // Nothing that was shown with a mapping may go missing because of it.
    if missing.is_empty() && unmapped > 0 && extra.chars().count() as u32 <= 2 * unmapped {
        let total_extra: i64 = got.iter().map(|(k, v)| (v - want.get(k).copied().unwrap_or(0)).max(0)).sum();
        if total_extra as u32 <= 2 * unmapped {
            return None;
        }
    }
    let flat = nows(text);
    let counted = |it: &&Item| match it.mark {
        "artifact" => include_artifacts,
        "actualtext_replaced" => false,
        _ => true,
    };
    let lost: Vec<&Item> = items.iter().filter(counted).filter(|it| !nows(&it.text).is_empty() && !flat.contains(&nows(&it.text))).collect();
    let leaked: Vec<&Item> = items.iter().filter(|it| !counted(it)).filter(|it| nows(&it.text).chars().count() >= 3 && flat.contains(&nows(&it.text))).collect();
    let tail = if let Some(it) = lost.first() {
        let kind = if extra.is_empty() { "missing" } else { "changed" };
        let g = if it.geom == "rotated90" || it.geom == "mirrored" { it.geom } else { "upright" };
        format!("{kind}|font={}|mark={}|geom={g}", it.font, it.mark)
    } else if let Some(it) = leaked.first() {
        format!("suppressed_content_extracted|mark={}", it.mark)
    } else if missing.is_empty() {
        "extra_characters|duplicated_or_spurious".to_string()
    } else {
        "counts_differ|no_single_show_identified".to_string()
    };
    Some((tail, format!("missing {missing:?} extra {extra:?}; first affected show: {:?}", lost.first().or(leaked.first()))))
}

pub fn run(ctx: &Ctx, rec: &mut Recorder) -> Result<(), String> {
    let npages = ctx.qt(16_000u64, 600_000u64);
    for c in 0..npages {
        if !ctx.mine(c) {
            continue;
        }
        if let Some(list) = ctx.arg("only") {
            if !list.split(',').any(|x| x.parse::<u64>().ok() == Some(c)) {
                continue;
            }
        }
        let mut r = Rng::derive(ctx.seed, 11, c);
        let pm = gen_page(&mut r);
        if let Some(d) = ctx.arg("dump") {
            crate::rec::write_file(&std::path::Path::new(d).join(format!("p{c:06}.pdf")), &pm.pdf);
        }
        let replay = |mask: u32, text: &str| {
            json!({"case": c, "seed": ctx.seed, "options": flag_names(mask), "content": String::from_utf8_lossy(&pm.content), "extracted": text,
                   "shown": pm.items.iter().map(|i| json!({"text": i.text, "op": i.op, "font": i.font, "ctx": i.ctx, "mark": i.mark, "geom": i.geom})).collect::<Vec<_>>(),
                   "pdf_hex": if pm.pdf.len() < 30000 { json!(hex(&pm.pdf)) } else { Value::Null }})
        };
        let doc = match crate::mon::guarded(|| PdfReader::new_with_options(Cursor::new(pm.pdf.clone()), ParseOptions::default()).map(|r| r.into_document())) {
            Ok(Ok(d)) => d,
            Ok(Err(e)) => {
                rec.inconclusive(format!("generated page {c} does not open: {e}"));
                continue;
            }
            Err(p) => {
                rec.violation(format!("C11|panic|open|{}", p.site()), p.message.clone(), replay(0, ""));
                continue;
            }
        };
        let run = |opts: ExtractionOptions| -> Result<String, String> {
            match crate::mon::guarded(|| TextExtractor::with_options(opts).extract_from_page(&doc, 0)) {
                Ok(Ok(t)) => Ok(t.text),
                Ok(Err(e)) => Err(format!("error: {e}")),
                Err(p) => Err(format!("panic at {}: {}", p.site(), p.message)),
            }
        };
        // default, every single flag, a few combinations (with sampled thresholds)
        let mut masks: Vec<(u32, bool)> = vec![(0, false)];
        masks.extend((0..8).map(|i| (1u32 << i, false)));
        masks.push((255, false));
        for _ in 0..ctx.qt(3, 12) {
            masks.push((r.below(256) as u32, true));
        }
        let mut default_fail: Option<String> = None;
        let mut single_fail: Vec<(u32, String)> = Vec::new();
        for (mi, (mask, th)) in masks.into_iter().enumerate() {
            rec.evaluations += 1;
            let opts = if th { options(mask, Some(&mut r)) } else { options(mask, None) };
            let res = run(opts.clone());
            let text = match res {
                Ok(t) => t,
                Err(e) => {
                    let kind = if e.starts_with("panic") { "panic" } else { "error" };
                    let site = e.split(':').next().unwrap_or("").to_string();
                    rec.violation(format!("C11|{kind}|{}|opts={}", if kind == "panic" { site } else { "extract_from_page".into() }, if default_fail.is_some() { "default".into() } else { flag_names(mask) }), e.clone(), replay(mask, ""));
                    if mask == 0 {
                        default_fail = Some("error".into());
                    }
                    continue;
                }
            };
            rec.count("extractions_judged");
            match judge(&pm.items, &text, mask & 32 != 0, pm.unmapped) {
                None => {}
                Some((tail, detail)) => {
                    if mask == 0 {
                        default_fail = Some(tail.clone());
                        rec.violation(format!("C11|{tail}|opts=default"), detail, replay(mask, &text));
                    } else if default_fail.as_deref() == Some(tail.as_str()) {
                        // same failure as under the default options: already reported
                    } else if mask.count_ones() == 1 {
                        single_fail.push((mask, tail.clone()));
                        rec.violation(format!("C11|{tail}|opts={}", flag_names(mask)), detail, replay(mask, &text));
                    } else if let Some((m1, _)) = single_fail.iter().find(|(m, t)| mask & m != 0 && *t == tail) {
                        let _ = m1; // explained by a single flag that is part of this combination
                    } else {
                        rec.violation(format!("C11|{tail}|opts=combination:{}", flag_names(mask)), detail, replay(mask, &text));
                    }
                }
            }
            if mi == 0 || mi % 5 == 4 {
                // determinism: the same options again on the same document
                if let Ok(t2) = run(opts.clone()) {
                    rec.count("determinism_reruns");
                    if t2 != text {
                        rec.violation(format!("C11|nondeterministic|opts={}", flag_names(mask)), "two extractions of the same page with the same options differ", replay(mask, &text));
                    }
                }
            }
        }
        for o in &pm.ops {
            rec.set_add("operators", *o);
        }
        for it in &pm.items {
            rec.set_add("font_x_ctx", format!("{}|{}", it.font, it.ctx));
            rec.set_add("marks", it.mark);
            rec.set_add("geometry", it.geom);
            rec.count(&format!("shows.{}", it.op));
        }
        let distinct_ops: std::collections::BTreeSet<&str> = pm.ops.iter().copied().filter(|o| ["Tj", "TJ", "'", "\"", "T*", "TD", "Td", "Tm"].contains(o)).collect();
        let nontrivial = distinct_ops.len() >= 3 || pm.ops.contains(&"Do") || pm.items.iter().any(|i| i.font.starts_with("type0"));
        if pm.unmapped > 0 {
            rec.count("pages_with_glyphs_lacking_a_tounicode_entry");
        }
        rec.case(&pm.content, nontrivial);
        if rec.samples.len() < 2 {
            rec.sample(json!({"case": c, "content_head": String::from_utf8_lossy(&pm.content[..pm.content.len().min(400)]), "shows": pm.items.len()}));
        }
    }
    Ok(())
}
