"""Shared helpers for the Python stages."""
import glob, json, os, random, sys


def args():
    out, seed, tier = sys.argv[1], int(sys.argv[2]), sys.argv[3]
    kv = dict(a.split("=", 1) for a in sys.argv[4:])
    return out, seed, tier, kv


def rng(seed, *salt):
    return random.Random("%d|%s" % (seed, "|".join(str(s) for s in salt)))


def load_obs(out):
    """all observation records, grouped: {id: {preset: record}}"""
    res = {}
    for fn in sorted(glob.glob(os.path.join(out, "obs-*.jsonl"))):
        for line in open(fn):
            if not line.strip():
                continue
            r = json.loads(line)
            res.setdefault(r["id"], {})[r["preset"]] = r
    return res


def load_cases(dirp):
    cases = {}
    for line in open(os.path.join(dirp, "cases.jsonl")):
        if line.strip():
            c = json.loads(line)
            cases[c["id"]] = c
    return cases
