"""Independent sfnt (TrueType / OpenType container) reader: directory checks, head/maxp/hhea/hmtx/
loca/glyf/cmap, and glyph outlines flattened to point lists (composites resolved, transforms applied).
Python stdlib only."""
import struct


class FontError(Exception):
    pass


def _u16(b, o): return struct.unpack_from(">H", b, o)[0]
def _i16(b, o): return struct.unpack_from(">h", b, o)[0]
def _u32(b, o): return struct.unpack_from(">I", b, o)[0]


class Sfnt:
    def __init__(self, data):
        self.data = data
        self.problems = []
        if len(data) < 12:
            raise FontError("shorter than an sfnt header")
        self.version = data[:4]
        if self.version not in (b"\x00\x01\x00\x00", b"OTTO", b"true"):
            raise FontError("not an sfnt: %r" % self.version)
        n = _u16(data, 4)
        if 12 + 16 * n > len(data):
            raise FontError("table directory beyond the end of the file")
        self.tables = {}
        prev = None
        for i in range(n):
            o = 12 + 16 * i
            tag = data[o:o + 4]
            cs, off, ln = _u32(data, o + 4), _u32(data, o + 8), _u32(data, o + 12)
            if prev is not None and tag <= prev:
                self.problems.append("table directory not sorted (%r after %r)" % (tag, prev))
            prev = tag
            if off + ln > len(data):
                self.problems.append("table %r [%d,+%d) beyond the end of the file (%d)" % (tag, off, ln, len(data)))
                continue
            if off % 4:
                self.problems.append("table %r at offset %d is not 4-byte aligned" % (tag, off))
            body = data[off:off + ln]
            if tag != b"head":
                pad = body + b"\0" * (-len(body) % 4)
                s = sum(struct.unpack(">%dI" % (len(pad) // 4), pad)) & 0xFFFFFFFF
                if s != cs:
                    self.problems.append("table %r checksum %08x, computed %08x" % (tag, cs, s))
            self.tables[tag] = body
        self.is_cff = b"CFF " in self.tables
        t = self.tables
        if b"head" in t and len(t[b"head"]) >= 54:
            self.units_per_em = _u16(t[b"head"], 18)
            self.loca_format = _i16(t[b"head"], 50)
        else:
            self.units_per_em, self.loca_format = None, None
        self.num_glyphs = _u16(t[b"maxp"], 4) if b"maxp" in t and len(t[b"maxp"]) >= 6 else None
        self.num_hmetrics = _u16(t[b"hhea"], 34) if b"hhea" in t and len(t[b"hhea"]) >= 36 else None
        self._loca = None

    # ---- metrics
    def advance(self, gid):
        h = self.tables.get(b"hmtx")
        if h is None or self.num_hmetrics is None or self.num_hmetrics == 0:
            return None
        k = min(gid, self.num_hmetrics - 1)
        if 4 * k + 2 > len(h):
            return None
        return _u16(h, 4 * k)

    # ---- glyf
    def loca(self):
        if self._loca is None:
            l = self.tables.get(b"loca")
            if l is None or self.num_glyphs is None:
                raise FontError("no loca / maxp")
            n = self.num_glyphs + 1
            if self.loca_format == 0:
                if len(l) < 2 * n:
                    raise FontError("loca has %d bytes, %d glyphs need %d" % (len(l), self.num_glyphs, 2 * n))
                self._loca = [2 * _u16(l, 2 * i) for i in range(n)]
            else:
                if len(l) < 4 * n:
                    raise FontError("loca has %d bytes, %d glyphs need %d" % (len(l), self.num_glyphs, 4 * n))
                self._loca = [_u32(l, 4 * i) for i in range(n)]
        return self._loca

    def glyph_data(self, gid):
        lo = self.loca()
        if gid + 1 >= len(lo):
            raise FontError("glyph %d beyond numGlyphs %d" % (gid, self.num_glyphs))
        a, b = lo[gid], lo[gid + 1]
        g = self.tables.get(b"glyf", b"")
        if a > b or b > len(g):
            raise FontError("loca entry of glyph %d [%d,%d) outside glyf (%d)" % (gid, a, b, len(g)))
        return g[a:b]

    def components(self, gid):
        d = self.glyph_data(gid)
        if len(d) < 10 or _i16(d, 0) >= 0:
            return []
        out, o = [], 10
        while True:
            flags, cg = _u16(d, o), _u16(d, o + 2)
            o += 4
            if flags & 1:
                a1, a2 = _i16(d, o), _i16(d, o + 2); o += 4
            else:
                a1, a2 = struct.unpack_from(">bb", d, o); o += 2
            m = (1.0, 0.0, 0.0, 1.0)
            if flags & 0x8:
                s = _i16(d, o) / 16384.0; o += 2; m = (s, 0.0, 0.0, s)
            elif flags & 0x40:
                sx, sy = _i16(d, o) / 16384.0, _i16(d, o + 2) / 16384.0; o += 4; m = (sx, 0.0, 0.0, sy)
            elif flags & 0x80:
                m = tuple(_i16(d, o + 2 * k) / 16384.0 for k in range(4)); o += 8
            out.append((cg, flags, a1, a2, m))
            if not flags & 0x20:
                break
        return out

    def outline(self, gid, depth=0):
        """flattened contour list: [[(x, y, on_curve), ...], ...]; offsets given as point indices are
        reported as ('anchor', a1, a2) markers so that they still compare equal across copies"""
        if depth > 8:
            raise FontError("composite nesting too deep")
        d = self.glyph_data(gid)
        if len(d) == 0:
            return []
        if len(d) < 10:
            raise FontError("glyph %d has %d bytes" % (gid, len(d)))
        nc = _i16(d, 0)
        if nc >= 0:
            o = 10
            ends = [_u16(d, o + 2 * i) for i in range(nc)]
            o += 2 * nc
            il = _u16(d, o); o += 2 + il
            npts = ends[-1] + 1 if ends else 0
            flags = []
            while len(flags) < npts:
                f = d[o]; o += 1
                flags.append(f)
                if f & 8:
                    r = d[o]; o += 1
                    flags.extend([f] * r)
            flags = flags[:npts]
            xs, x = [], 0
            for f in flags:
                if f & 2:
                    dx = d[o]; o += 1
                    x += dx if f & 16 else -dx
                elif not f & 16:
                    x += _i16(d, o); o += 2
                xs.append(x)
            ys, y = [], 0
            for f in flags:
                if f & 4:
                    dy = d[o]; o += 1
                    y += dy if f & 32 else -dy
                elif not f & 32:
                    y += _i16(d, o); o += 2
                ys.append(y)
            if o > len(d):
                raise FontError("glyph %d: coordinate data runs past the glyph (%d > %d)" % (gid, o, len(d)))
            contours, s = [], 0
            for e in ends:
                contours.append([(xs[i], ys[i], flags[i] & 1) for i in range(s, e + 1)])
                s = e + 1
            return contours
        res = []
        for cg, flags, a1, a2, m in self.components(gid):
            sub = self.outline(cg, depth + 1)
            if flags & 2:
                dx, dy = a1, a2
                res.extend([[(round(m[0] * x + m[2] * y + dx, 3), round(m[1] * x + m[3] * y + dy, 3), on) for x, y, on in c] for c in sub])
            else:
                res.append([("anchor", a1, a2)])
                res.extend([[(round(m[0] * x + m[2] * y, 3), round(m[1] * x + m[3] * y, 3), on) for x, y, on in c] for c in sub])
        return res

    # ---- cmap
    def cmap(self):
        c = self.tables.get(b"cmap")
        if c is None:
            return {}
        n = _u16(c, 2)
        best, rank = None, -1
        for i in range(n):
            pid, eid, off = _u16(c, 4 + 8 * i), _u16(c, 6 + 8 * i), _u32(c, 8 + 8 * i)
            fmt = _u16(c, off)
            r = {(3, 10, 12): 5, (0, 4, 12): 4, (0, 6, 12): 4, (3, 1, 4): 3, (0, 3, 4): 2, (0, 4, 4): 2}.get((pid, eid, fmt), 1 if fmt in (4, 12) and pid in (0, 3) else -1)
            if r > rank:
                best, rank = (off, fmt), r
        if best is None:
            return {}
        off, fmt = best
        m = {}
        if fmt == 12:
            ng = _u32(c, off + 12)
            for g in range(ng):
                s, e, gid = struct.unpack_from(">III", c, off + 16 + 12 * g)
                for cp in range(s, e + 1):
                    m[cp] = gid + cp - s
        else:
            segx2 = _u16(c, off + 6)
            ends = off + 14
            starts = ends + segx2 + 2
            deltas = starts + segx2
            ranges = deltas + segx2
            for k in range(segx2 // 2):
                e, s = _u16(c, ends + 2 * k), _u16(c, starts + 2 * k)
                dl, ro = _i16(c, deltas + 2 * k), _u16(c, ranges + 2 * k)
                for cp in range(s, e + 1):
                    if cp == 0xFFFF:
                        continue
                    if ro == 0:
                        g = (cp + dl) & 0xFFFF
                    else:
                        p = ranges + 2 * k + ro + 2 * (cp - s)
                        g = _u16(c, p)
                        if g:
                            g = (g + dl) & 0xFFFF
                    if g:
                        m[cp] = g
        return m


def selftest():
    import glob
    for p in ["/repo/test-pdfs/Roboto-Regular.ttf"] + sorted(glob.glob("/usr/share/fonts/truetype/dejavu/DejaVuSans.ttf")):
        f = Sfnt(open(p, "rb").read())
        assert not f.problems, (p, f.problems[:3])
        cm = f.cmap()
        assert cm.get(0x41), p
        o = f.outline(cm[0x41])
        assert o and f.advance(cm[0x41]) > 0
        # a composite (é) flattens to at least as many contours as its base letter
        if 0xE9 in cm:
            assert len(f.outline(cm[0xE9])) >= len(f.outline(cm[0x65])), p
    return None  # convention of pyref.selftest: an error description, or nothing


if __name__ == "__main__":
    print(selftest() or "OK")
