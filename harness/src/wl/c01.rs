//! C01 — reading any byte sequence never crashes, hangs or exhausts memory.
//! Each shard is a *supervisor*: it generates inputs and feeds them to a worker
//! process (`vh worker C01`) that opens the bytes under every preset and walks a
//! fixed navigation script under the in-process monitors (panic hook, counting
//! allocator with ceiling, thread CPU time, counted reads). The supervisor sees
//! exit status / signals, attributes them to the case in flight and restarts
//! the worker.
use crate::gen::docgen;
use crate::rec::hex;
use crate::{Ctx, Recorder, Rng};
use oxidize_pdf::parser::content::ContentParser;
use oxidize_pdf::parser::objects::PdfObject;
use oxidize_pdf::parser::PdfReader;
use serde_json::{json, Value};
use std::io::{BufRead, BufReader, Read, Seek, SeekFrom, Write};
use std::process::{Child, Command, Stdio};
use std::sync::atomic::{AtomicU64, Ordering};
use std::sync::mpsc;
use std::sync::Arc;
use std::time::Duration;

pub const PRESETS: [&str; 6] = ["new", "strict", "default", "tolerant", "lenient", "skip_errors"];
const CPU_BUDGET_MS: u64 = 20_000;
const ALLOC_CEILING: usize = 3 * 256 * 1024 * 1024 + 64 * 256 * 1024;
const POOL: [&str; 22] = [
    "0", "1", "-1", "2", "7", "8", "255", "256", "65535", "65536", "2147483647", "2147483648", "4294967295", "4294967296",
    "9223372036854775807", "-9223372036854775808", "1000000000000000000", "1000000000000000000000000000000", "-2147483648", "16", "12", "99999999",
];
const KEYS: [&str; 20] = [
    "/Size", "/Prev", "/W", "/Index", "/N", "/First", "/Length", "/Predictor", "/Colors", "/Columns", "/BitsPerComponent", "/Rotate", "/Count",
    "/Rows", "/K", "/EarlyChange", "/Width", "/Height", "/XRefStm", "/Extends",
];

// ------------------------------------------------------------------ worker

struct CountingReader {
    inner: std::io::Cursor<Vec<u8>>,
    bytes: Arc<AtomicU64>,
    seeks: Arc<AtomicU64>,
}
impl Read for CountingReader {
    fn read(&mut self, buf: &mut [u8]) -> std::io::Result<usize> {
        let n = self.inner.read(buf)?;
        self.bytes.fetch_add(n as u64, Ordering::Relaxed);
        Ok(n)
    }
}
impl Seek for CountingReader {
    fn seek(&mut self, pos: SeekFrom) -> std::io::Result<u64> {
        self.seeks.fetch_add(1, Ordering::Relaxed);
        self.inner.seek(pos)
    }
}

/// The navigation script. Returns (deepest stage reached, outcome class).
fn navigate(bytes: &[u8], preset: &str, read_bytes: &Arc<AtomicU64>, seeks: &Arc<AtomicU64>) -> (u8, String) {
    let rdr = CountingReader { inner: std::io::Cursor::new(bytes.to_vec()), bytes: read_bytes.clone(), seeks: seeks.clone() };
    let opened = if preset == "new" { PdfReader::new(rdr) } else { PdfReader::new_with_options(rdr, super::obs::preset(preset)) };
    let mut reader = match opened {
        Ok(r) => r,
        Err(e) => {
            let s = format!("{e:?}");
            return (0, format!("open_err:{}", s.split(|c: char| !c.is_alphanumeric()).next().unwrap_or("?")));
        }
    };
    let mut stage = 1u8;
    let _ = reader.version().to_string();
    let _ = reader.catalog().map(|c| c.0.len());
    let _ = reader.info().map(|i| i.map(|d| d.0.len()));
    let _ = reader.metadata();
    let opts = reader.options().clone();
    // objects
    let size = reader.trailer().size().unwrap_or(0).min(600);
    for n in 1..=size.min(512) {
        if let Ok(o) = reader.get_object(n, 0) {
            if let PdfObject::Stream(s) = o.clone() {
                if s.decode(&opts).is_ok() {
                    stage = stage.max(3);
                }
                let _ = s.decode_with_limit(&opts, 4096);
            }
        }
    }
    let pc = reader.page_count();
    let doc = reader.into_document();
    if let Ok(n) = pc {
        if n > 0 {
            stage = stage.max(2);
        }
        for i in 0..n.min(8) {
            if let Ok(p) = doc.get_page(i) {
                let _ = p.get_resources().map(|r| r.0.len());
                let _ = doc.get_page_annotations(i);
                if let Ok(cs) = doc.get_page_content_streams(&p) {
                    for c in cs.iter().take(4) {
                        let _ = ContentParser::parse(c);
                    }
                }
                if doc.extract_text_from_page(i).is_ok() {
                    stage = stage.max(4);
                }
                let mut eo = oxidize_pdf::text::ExtractionOptions::default();
                eo.preserve_layout = true;
                eo.detect_columns = true;
                let _ = doc.extract_text_from_page_with_options(i, eo);
            }
        }
    }
    (stage, "ok".into())
}

pub fn worker_main() -> i32 {
    crate::mon::install_panic_hook();
    let stdin = std::io::stdin();
    let mut out = std::io::stdout();
    for line in stdin.lock().lines() {
        let Ok(line) = line else { break };
        let mut it = line.splitn(2, ' ');
        let (Some(id), Some(path)) = (it.next(), it.next()) else { continue };
        let Ok(bytes) = std::fs::read(path) else {
            let _ = writeln!(out, "E {id} {}", json!({"harness": "cannot read case file"}));
            let _ = out.flush();
            continue;
        };
        let _ = writeln!(out, "B {id}");
        let _ = out.flush();
        let mut res = serde_json::Map::new();
        for preset in PRESETS {
            let rb = Arc::new(AtomicU64::new(0));
            let sk = Arc::new(AtomicU64::new(0));
            let base = crate::mon::alloc_reset_peak();
            crate::mon::alloc_set_ceiling(base + ALLOC_CEILING + 64 * bytes.len());
            let t0 = crate::mon::thread_cpu_ns();
            // announce the preset so that a crash can be attributed
            let _ = writeln!(out, "P {id} {preset}");
            let _ = out.flush();
            let r = crate::mon::guarded(|| navigate(&bytes, preset, &rb, &sk));
            let cpu_ms = (crate::mon::thread_cpu_ns() - t0) / 1_000_000;
            let peak = crate::mon::alloc_peak().saturating_sub(base);
            crate::mon::alloc_set_ceiling(usize::MAX);
            let v = match r {
                Ok((stage, class)) => json!({"stage": stage, "class": class, "cpu_ms": cpu_ms, "peak": peak, "read": rb.load(Ordering::Relaxed), "seeks": sk.load(Ordering::Relaxed)}),
                Err(p) => json!({"panic": p.site(), "msg": p.message.chars().take(200).collect::<String>(), "cpu_ms": cpu_ms}),
            };
            res.insert(preset.to_string(), v);
        }
        let _ = writeln!(out, "E {id} {}", Value::Object(res));
        let _ = out.flush();
    }
    0
}

// -------------------------------------------------------------- supervisor

struct Worker {
    child: Child,
    rx: mpsc::Receiver<String>,
}

fn spawn_worker() -> Result<Worker, String> {
    let exe = std::env::current_exe().map_err(|e| e.to_string())?;
    let mut child = Command::new(exe)
        .args(["worker", "C01"])
        .stdin(Stdio::piped())
        .stdout(Stdio::piped())
        .stderr(Stdio::null())
        .spawn()
        .map_err(|e| e.to_string())?;
    let stdout = child.stdout.take().ok_or("no stdout")?;
    let (tx, rx) = mpsc::channel();
    std::thread::spawn(move || {
        for l in BufReader::new(stdout).lines().map_while(Result::ok) {
            if tx.send(l).is_err() {
                break;
            }
        }
    });
    Ok(Worker { child, rx })
}

enum Outcome {
    Done(Value),
    Died { preset: String, status: String },
    /// wall-clock watchdog only: not a verdict
    Hung { preset: String },
    /// the worker burnt more than the CPU budget on this case without finishing
    CpuExceeded { preset: String },
}

/// user+system CPU time of a process in ms (from /proc/<pid>/stat; 100 ticks per second)
fn proc_cpu_ms(pid: u32) -> u64 {
    let Ok(s) = std::fs::read_to_string(format!("/proc/{pid}/stat")) else { return 0 };
    let Some(rest) = s.rsplit_once(") ").map(|x| x.1) else { return 0 };
    let f: Vec<&str> = rest.split(' ').collect();
    let ut: u64 = f.get(11).and_then(|x| x.parse().ok()).unwrap_or(0);
    let st: u64 = f.get(12).and_then(|x| x.parse().ok()).unwrap_or(0);
    (ut + st) * 10
}

fn run_case(w: &mut Option<Worker>, id: &str, path: &std::path::Path, wall: Duration) -> Result<Outcome, String> {
    if w.is_none() {
        *w = Some(spawn_worker()?);
    }
    let wk = w.as_mut().unwrap();
    {
        let stdin = wk.child.stdin.as_mut().ok_or("no stdin")?;
        if writeln!(stdin, "{id} {}", path.display()).is_err() {
            *w = None;
            return Err("worker pipe closed".into());
        }
        let _ = stdin.flush();
    }
    let mut preset = String::from("?");
    let deadline = std::time::Instant::now() + wall;
    let pid = wk.child.id();
    let cpu0 = proc_cpu_ms(pid);
    loop {
        let left = deadline.saturating_duration_since(std::time::Instant::now());
        // load-independent verdict: CPU time the worker has burnt on this case
        if proc_cpu_ms(pid).saturating_sub(cpu0) > CPU_BUDGET_MS + 5_000 {
            let _ = wk.child.kill();
            let _ = wk.child.wait();
            *w = None;
            return Ok(Outcome::CpuExceeded { preset });
        }
        match wk.rx.recv_timeout(left.min(Duration::from_millis(500)).max(Duration::from_millis(1))) {
            Ok(l) => {
                if let Some(rest) = l.strip_prefix("E ") {
                    let mut it = rest.splitn(2, ' ');
                    let _ = it.next();
                    let v: Value = serde_json::from_str(it.next().unwrap_or("{}")).unwrap_or(Value::Null);
                    return Ok(Outcome::Done(v));
                } else if let Some(rest) = l.strip_prefix("P ") {
                    preset = rest.split(' ').nth(1).unwrap_or("?").to_string();
                }
            }
            Err(mpsc::RecvTimeoutError::Timeout) if std::time::Instant::now() < deadline => continue,
            Err(mpsc::RecvTimeoutError::Timeout) => {
                let _ = wk.child.kill();
                let _ = wk.child.wait();
                *w = None;
                return Ok(Outcome::Hung { preset });
            }
            Err(mpsc::RecvTimeoutError::Disconnected) => {
                let st = wk.child.wait().map(|s| format!("{s}")).unwrap_or_else(|e| e.to_string());
                *w = None;
                return Ok(Outcome::Died { preset, status: st });
            }
        }
    }
}

// --------------------------------------------------------------- generators

fn find_all(hay: &[u8], needle: &[u8]) -> Vec<usize> {
    let mut v = Vec::new();
    let mut i = 0;
    while i + needle.len() <= hay.len() {
        if &hay[i..i + needle.len()] == needle {
            v.push(i);
            i += needle.len();
        } else {
            i += 1;
        }
    }
    v
}

/// Replace the first integer after `pos` (skipping white space, '[' and earlier numbers up to `skip`).
fn replace_int_after(data: &[u8], pos: usize, skip: usize, with: &str) -> Option<Vec<u8>> {
    let mut i = pos;
    let mut seen = 0;
    while i < data.len() && i < pos + 60 {
        let c = data[i];
        if c.is_ascii_digit() || ((c == b'-' || c == b'+') && data.get(i + 1).map(|d| d.is_ascii_digit()).unwrap_or(false)) {
            let s = i;
            i += 1;
            while i < data.len() && data[i].is_ascii_digit() {
                i += 1;
            }
            if seen == skip {
                let mut out = data[..s].to_vec();
                out.extend_from_slice(with.as_bytes());
                out.extend_from_slice(&data[i..]);
                return Some(out);
            }
            seen += 1;
        } else if c == b' ' || c == b'[' || c == b'\n' || c == b'\r' {
            i += 1;
        } else {
            return None;
        }
    }
    None
}

fn templates(seed: u64) -> Vec<Vec<u8>> {
    let mut t = Vec::new();
    let mut r = Rng::derive(seed, 0xC01, 7);
    let cfgs = docgen::configs();
    for k in 0..6 {
        let prog = docgen::gen_program(&mut r, true, &["ascii", "latin1"]);
        let mut b = docgen::build(&prog);
        // classic, xref stream, compressed / not; object-stream files are > 256 KiB, not used here
        let ci = [0usize, 4, 16, 20, 2, 18][k % 6];
        if let Ok(bytes) = docgen::write(&mut b.doc, cfgs[ci].1.clone()) {
            if bytes.len() <= 256 * 1024 {
                t.push(bytes);
            }
        }
    }
    // hand-written skeletons: xref stream with /W /Index, object stream, predictor, incremental update
    t.push(b"%PDF-1.5\n1 0 obj\n<< /Type /Catalog /Pages 2 0 R >>\nendobj\n2 0 obj\n<< /Type /Pages /Kids [3 0 R] /Count 1 >>\nendobj\n3 0 obj\n<< /Type /Page /Parent 2 0 R /MediaBox [0 0 200 200] /Rotate 90 /Contents 4 0 R >>\nendobj\n4 0 obj\n<< /Length 26 >>\nstream\nBT /F1 12 Tf (A\\101\\7) Tj ET\nendstream\nendobj\n5 0 obj\n<< /Type /ObjStm /N 1 /First 4 /Length 12 >>\nstream\n6 0 (hello)  \nendstream\nendobj\n7 0 obj\n<< /Type /XRef /Size 8 /W [1 2 1] /Index [0 8] /Root 1 0 R /Length 32 /DecodeParms << /Predictor 12 /Columns 4 /Colors 1 /BitsPerComponent 8 >> >>\nstream\n\x00\x00\x00\xff\x01\x00\x09\x00\x01\x00\x3a\x00\x01\x00\x73\x00\x01\x00\xd0\x00\x01\x01\x1a\x00\x02\x00\x05\x00\x01\x01\x6c\x00\nendstream\nendobj\nstartxref\n364\n%%EOF\n".to_vec());
    t.push(b"%PDF-1.4\n1 0 obj\n<< /Type /Catalog /Pages 2 0 R >>\nendobj\n2 0 obj\n<< /Type /Pages /Kids [3 0 R] /Count 1 >>\nendobj\n3 0 obj\n<< /Type /Page /Parent 2 0 R /MediaBox [0 0 300 300] >>\nendobj\nxref\n0 4\n0000000000 65535 f \n0000000009 00000 n \n0000000058 00000 n \n0000000115 00000 n \ntrailer\n<< /Size 4 /Root 1 0 R >>\nstartxref\n186\n%%EOF\n3 0 obj\n<< /Type /Page /Parent 2 0 R /MediaBox [0 0 400 400] /Rotate 180 >>\nendobj\nxref\n3 1\n0000000325 00000 n \ntrailer\n<< /Size 4 /Root 1 0 R /Prev 186 >>\nstartxref\n408\n%%EOF\n".to_vec());
    t
}

fn corpus() -> Vec<Vec<u8>> {
    let mut v = Vec::new();
    for dir in ["/repo/oxidize-pdf-core/tests/fixtures", "/repo/oxidize-pdf-core/tests/fixtures/fuzz-regressions", "/repo/test-pdfs", "/verif/replays/known/C01"] {
        if let Ok(rd) = std::fs::read_dir(dir) {
            let mut names: Vec<_> = rd.filter_map(|e| e.ok()).map(|e| e.path()).collect();
            names.sort();
            for p in names {
                let ext = p.extension().and_then(|e| e.to_str()).unwrap_or("");
                if ext == "pdf" || ext == "bin" {
                    if let Ok(b) = std::fs::read(&p) {
                        if !b.is_empty() && b.len() <= 256 * 1024 {
                            v.push(b);
                        }
                    }
                }
            }
        }
    }
    v
}

fn mutate(r: &mut Rng, base: &[u8], others: &[Vec<u8>]) -> Vec<u8> {
    let mut v = base.to_vec();
    for _ in 0..r.urange(1, 6) {
        if v.is_empty() {
            break;
        }
        let i = r.usize_below(v.len());
        match r.below(8) {
            0 => v[i] ^= 1 << r.below(8),
            1 => v[i] = r.below(256) as u8,
            2 => {
                let n = r.urange(1, 40).min(v.len() - i);
                v.drain(i..i + n);
            }
            3 => {
                let n = r.urange(1, 20);
                let ins = r.bytes(n);
                v.splice(i..i, ins);
            }
            4 => v.truncate(i),
            5 => {
                let o = r.pick(others);
                if !o.is_empty() {
                    let a = r.usize_below(o.len());
                    let b = (a + r.urange(1, 200)).min(o.len());
                    v.splice(i..i, o[a..b].iter().copied());
                }
            }
            6 => {
                let kw: [&[u8]; 8] = [b"endobj", b"stream", b"endstream", b"<<", b">>", b"[", b"(", b"xref"];
                let k = r.pick(&kw);
                v.splice(i..i, k.iter().copied());
            }
            _ => {
                let d = r.urange(50, 3000);
                let open: &[u8] = if r.bool() { b"[" } else { b"<</A" };
                let mut ins = Vec::new();
                for _ in 0..d {
                    ins.extend_from_slice(open);
                }
                v.splice(i..i, ins);
            }
        }
    }
    v
}

pub fn run(ctx: &Ctx, rec: &mut Recorder) -> Result<(), String> {
    let dir = ctx.out.join(format!("c01-{}", ctx.shard));
    std::fs::create_dir_all(&dir).map_err(|e| e.to_string())?;
    let case_path = dir.join("case.bin");
    let tmpl = templates(ctx.seed);
    let corp = corpus();
    if tmpl.is_empty() {
        return Err("no templates".into());
    }
    let mut all_bases = tmpl.clone();
    all_bases.extend(corp.iter().cloned());
    // systematic slot x pool list over the templates
    let mut slot_cases: Vec<(String, Vec<u8>)> = Vec::new();
    for (ti, t) in tmpl.iter().enumerate() {
        for key in KEYS {
            for (oi, pos) in find_all(t, key.as_bytes()).into_iter().enumerate().take(3) {
                let after = pos + key.len();
                if t.get(after).map(|c| c.is_ascii_alphabetic()).unwrap_or(false) {
                    continue; // a longer key such as /FirstChar
                }
                for skip in 0..(if key == "/W" || key == "/Index" { 3 } else { 1 }) {
                    for pv in POOL {
                        if let Some(m) = replace_int_after(t, after, skip, pv) {
                            slot_cases.push((format!("slot|t{ti}|{key}#{oi}.{skip}={pv}"), m));
                        }
                    }
                }
            }
        }
        // xref subsection header, entry offsets, startxref
        for pos in find_all(t, b"xref\n").into_iter().take(2) {
            for skip in 0..4 {
                for pv in POOL.iter().step_by(2) {
                    if let Some(m) = replace_int_after(t, pos + 5, skip, pv) {
                        slot_cases.push((format!("slot|t{ti}|xref.{skip}={pv}"), m));
                    }
                }
            }
        }
    }
    // witnesses of defects found earlier (fixed or known) are replayed unmodified first
    let mut nregress = 0u64;
    if let Ok(rd) = std::fs::read_dir("/verif/replays/known/C01") {
        let mut names: Vec<_> = rd.filter_map(|e| e.ok()).map(|e| e.path()).collect();
        names.sort();
        for p in names {
            if let Ok(b) = std::fs::read(&p) {
                if !b.is_empty() {
                    slot_cases.insert(nregress as usize, (format!("regress|{}", p.file_name().map(|n| n.to_string_lossy().to_string()).unwrap_or_default()), b));
                    nregress += 1;
                }
            }
        }
    }
    let nslot = slot_cases.len() as u64;
    let nrand = ctx.qt(9_000u64, 400_000u64);
    let total = nslot + nrand;
    let mut worker: Option<Worker> = None;
    let wall = Duration::from_secs(ctx.qt(45, 90));
    let mut done = 0u64;
    for cno in 0..total {
        if !ctx.mine(cno) {
            continue;
        }
        let (desc, bytes): (String, Vec<u8>) = if cno < nslot {
            slot_cases[cno as usize].clone()
        } else {
            let mut r = Rng::derive(ctx.seed, 1, cno);
            match r.below(10) {
                0 => {
                    let n = r.urange(0, 400);
                    let mut v = if r.bool() { b"%PDF-1.7\n".to_vec() } else { Vec::new() };
                    v.extend(r.bytes(n));
                    ("random".into(), v)
                }
                1 | 2 => {
                    // pairs of slots
                    let t = r.pick(&tmpl).clone();
                    let mut v = t;
                    for _ in 0..2 {
                        let key = *r.pick(&KEYS);
                        let occ = find_all(&v, key.as_bytes());
                        if let Some(&pos) = occ.first() {
                            let skip = r.usize_below(2);
                            let pv: &str = POOL[r.usize_below(POOL.len())];
                            if let Some(m) = replace_int_after(&v, pos + key.len(), skip, pv) {
                                v = m;
                            }
                        }
                    }
                    ("slot_pair".into(), v)
                }
                _ => {
                    let b = r.pick(&all_bases).clone();
                    ("mutate".into(), mutate(&mut r, &b, &all_bases))
                }
            }
        };
        let bytes = if bytes.len() > 256 * 1024 { bytes[..256 * 1024].to_vec() } else { bytes };
        std::fs::write(&case_path, &bytes).map_err(|e| e.to_string())?;
        let id = format!("c{cno}");
        let kind = desc.split('|').next().unwrap_or("?").to_string();
        let witness = |extra: Value| {
            // keep the input itself: /verif/replays/C01/inputs/<sha1>.bin
            let sha = crate::dump::sha1_hex(&bytes);
            let root = std::env::var("VERIF_TRIAL").unwrap_or_else(|_| "/verif".into());
            let p = std::path::PathBuf::from(root).join("replays/C01/inputs").join(format!("{sha}.bin"));
            crate::rec::write_file(&p, &bytes);
            json!({"case": id, "kind": desc, "seed": ctx.seed, "len": bytes.len(), "input_file": p.display().to_string(),
                   "input_hex": if bytes.len() <= 6000 { json!(hex(&bytes)) } else { Value::Null }, "extra": extra})
        };
        let out = match run_case(&mut worker, &id, &case_path, wall) {
            Ok(o) => o,
            Err(e) => {
                rec.inconclusive(format!("supervisor: {e}"));
                continue;
            }
        };
        done += 1;
        match out {
            Outcome::Done(v) => {
                let mut nontrivial = false;
                if let Some(m) = v.as_object() {
                    for (preset, r) in m {
                        if let Some(site) = r.get("panic").and_then(|x| x.as_str()) {
                            rec.violation(format!("C01|panic|{site}"), format!("{} (preset {preset}, {kind})", r["msg"].as_str().unwrap_or("")), witness(json!({"preset": preset})));
                            nontrivial = true;
                            continue;
                        }
                        let class = r["class"].as_str().unwrap_or("?");
                        rec.set_add("preset_x_outcome", format!("{preset}|{class}"));
                        if !(class.contains("InvalidHeader") || class.contains("EmptyFile")) {
                            nontrivial = true;
                        }
                        rec.count(&format!("stage_reached.{}", r["stage"].as_u64().unwrap_or(0)));
                        let cpu = r["cpu_ms"].as_u64().unwrap_or(0);
                        let cur = rec.extra.get("max_cpu_ms").and_then(|x| x.as_u64()).unwrap_or(0);
                        rec.extra.insert("max_cpu_ms".into(), json!(cur.max(cpu)));
                        let peak = r["peak"].as_u64().unwrap_or(0);
                        let curp = rec.extra.get("max_peak_bytes").and_then(|x| x.as_u64()).unwrap_or(0);
                        rec.extra.insert("max_peak_bytes".into(), json!(curp.max(peak)));
                        if cpu > CPU_BUDGET_MS {
                            rec.violation(format!("C01|cpu_budget_exceeded|{preset}|{kind}"), format!("{cpu} ms thread CPU for {} input bytes", bytes.len()), witness(json!({"preset": preset})));
                        }
                        let read = r["read"].as_u64().unwrap_or(0);
                        if read > 4096 * bytes.len() as u64 + 64 * 1024 * 1024 {
                            rec.violation(format!("C01|read_budget_exceeded|{preset}|{kind}"), format!("{read} bytes read for {} input bytes", bytes.len()), witness(json!({"preset": preset})));
                        }
                    }
                }
                rec.case(&bytes, nontrivial);
                if cno < nregress {
                    rec.count("regression_witnesses_replayed");
                } else if cno < nslot {
                    rec.count("slot_x_pool_cases");
                }
                rec.count(&format!("kind.{kind}"));
            }
            Outcome::Died { preset, status } => {
                rec.case(&bytes, true);
                let cls = if status.contains("11") || status.to_lowercase().contains("segv") { "SIGSEGV_stack_overflow" } else if status.contains("6") || status.to_lowercase().contains("abort") { "SIGABRT_allocation_ceiling_or_abort" } else { "died" };
                rec.violation(format!("C01|{cls}|{preset}|{kind}"), format!("worker died ({status}) while reading this input under preset {preset}"), witness(json!({"preset": preset, "status": status})));
            }
            Outcome::CpuExceeded { preset } => {
                rec.case(&bytes, true);
                rec.violation(format!("C01|cpu_budget_exceeded_without_finishing|{preset}|{kind}"),
                    format!("worker burnt more than {} s CPU on an input of {} bytes under preset {preset} and had not finished", (CPU_BUDGET_MS + 5000) / 1000, bytes.len()),
                    witness(json!({"preset": preset})));
            }
            Outcome::Hung { preset } => {
                // wall-clock expiry alone is not a verdict: re-run alone with a longer leash; the
                // supervisor watches the worker's CPU time meanwhile
                match run_case(&mut worker, &id, &case_path, wall * 3) {
                    Ok(Outcome::CpuExceeded { preset }) => {
                        rec.violation(format!("C01|cpu_budget_exceeded_without_finishing|{preset}|{kind}"),
                            format!("input of {} bytes: CPU budget exceeded on the re-run after a wall-clock expiry", bytes.len()), witness(json!({"preset": preset})));
                    }
                    Ok(Outcome::Done(v)) => {
                        let worst = v.as_object().map(|m| m.values().filter_map(|r| r["cpu_ms"].as_u64()).max().unwrap_or(0)).unwrap_or(0);
                        if worst > CPU_BUDGET_MS {
                            rec.violation(format!("C01|cpu_budget_exceeded|{preset}|{kind}"), format!("{worst} ms thread CPU for {} input bytes (after a wall-clock expiry)", bytes.len()), witness(json!({"preset": preset})));
                        } else {
                            rec.inconclusive(format!("wall-clock watchdog fired for {id} but the re-run stayed within the CPU budget ({worst} ms)"));
                        }
                    }
                    Ok(Outcome::Hung { preset }) => {
                        // neither finished nor burnt CPU: blocked or starved; no verdict
                        rec.inconclusive(format!("{id}: wall-clock watchdog fired twice under preset {preset} without the CPU budget being reached"));
                    }
                    Ok(Outcome::Died { preset, status }) => {
                        rec.violation(format!("C01|died|{preset}|{kind}"), status, witness(json!({"preset": preset})));
                    }
                    Err(e) => rec.inconclusive(e),
                }
                rec.case(&bytes, true);
            }
        }
        if rec.samples.len() < 3 && cno >= nslot {
            rec.sample(json!({"case": id, "kind": desc, "len": bytes.len(), "head_hex": hex(&bytes[..bytes.len().min(64)])}));
        }
    }
    if let Some(mut w) = worker {
        drop(w.child.stdin.take());
        let _ = w.child.wait();
    }
    rec.count_n("cases_supervised", done);
    let _ = std::fs::remove_dir_all(&dir);
    Ok(())
}
