"""Anchor the references to third-party artefacts checked into the repository:
the qpdf-encrypted fixtures must decrypt (user and owner password) to the page
content of interop_base.pdf; unencrypted fixtures must read strictly."""
import glob, os
from . import pdf, crypto

FIX = "/repo/oxidize-pdf-core/tests/fixtures"
MARKER = b"OXIDIZE_INTEROP_FIXTURE_MARKER_V1"


def page_texts(doc):
    return [doc.page_content(p) for _, p, _ in doc.pages()]


def run(verbose=False):
    errs = []
    base_p = os.path.join(FIX, "interop_base.pdf")
    if not os.path.exists(base_p):
        return ["interop_base.pdf missing"]
    base = pdf.Document(open(base_p, "rb").read())
    base_pages = page_texts(base)
    if not any(MARKER in c for c in base_pages):
        errs.append("marker not in interop_base content")
    n_ok = 0
    for p in sorted(glob.glob(os.path.join(FIX, "interop_qpdf_*.pdf"))):
        name = os.path.basename(p)
        data = open(p, "rb").read()
        if "unicode" in name:
            pws = ["contraseña_ñ", "dueño_café"]
        elif "empty" in name:
            pws = ["", "ownerpw"]
        else:
            pws = ["userpw", "ownerpw"]
        for who, pw in zip(("user", "owner"), pws):
            try:
                pwb = crypto.utf8_password(pw) if "aes256" in name else pw.encode("latin-1")
                d = pdf.Document(data, password=pwb)
                if d.decryptor.authenticated_as != who and not (pws[0] == pws[1]):
                    errs.append("%s: %r authenticated as %s" % (name, pw, d.decryptor.authenticated_as))
                if page_texts(d) != base_pages:
                    errs.append("%s: decrypted page content differs from interop_base (%s password)" % (name, who))
                else:
                    n_ok += 1
                # wrong password must fail
            except Exception as e:
                errs.append("%s (%s pw): %s: %s" % (name, who, type(e).__name__, e))
        try:
            pdf.Document(data, password=b"definitely-wrong")
            errs.append("%s: wrong password accepted" % name)
        except pdf.PdfError:
            pass
    if verbose:
        print("qpdf fixtures decrypted OK:", n_ok)
    # other encrypted fixtures (passwords documented in the repository's tests)
    return errs


if __name__ == "__main__":
    e = run(True)
    print("fixtures:", "OK" if not e else "\n".join(e))
