"""Strict, independent PDF reader (ISO 32000-1 §7) — no recovery of any kind.

Objects are represented as:
  None, bool, int, float, Name(bytes), String(bytes, hex=bool), list, dict{bytes: obj},
  Ref(num, gen), Stream(dict, raw_bytes)
"""
import hashlib, re, zlib

WS = b"\x00\t\n\x0c\r "
DELIM = b"()<>[]{}/%"


class PdfError(Exception):
    pass


class Name:
    __slots__ = ("v",)

    def __init__(self, v):
        self.v = v

    def __eq__(self, o):
        return isinstance(o, Name) and o.v == self.v

    def __hash__(self):
        return hash(("N", self.v))

    def __repr__(self):
        return "/" + self.v.decode("latin-1")


class String:
    __slots__ = ("v", "hex")

    def __init__(self, v, hex=False):
        self.v = v
        self.hex = hex

    def __eq__(self, o):
        return isinstance(o, String) and o.v == self.v

    def __hash__(self):
        return hash(("S", self.v))

    def __repr__(self):
        return "String(%r)" % (self.v,)


class Ref:
    __slots__ = ("num", "gen")

    def __init__(self, num, gen):
        self.num, self.gen = num, gen

    def __eq__(self, o):
        return isinstance(o, Ref) and (o.num, o.gen) == (self.num, self.gen)

    def __hash__(self):
        return hash(("R", self.num, self.gen))

    def __repr__(self):
        return "%d %d R" % (self.num, self.gen)


class Stream:
    __slots__ = ("dict", "raw", "offset")

    def __init__(self, d, raw, offset=None):
        self.dict, self.raw, self.offset = d, raw, offset

    def __repr__(self):
        return "Stream(%r, %d bytes)" % (self.dict, len(self.raw))


class Keyword:
    __slots__ = ("v",)

    def __init__(self, v):
        self.v = v

    def __repr__(self):
        return "Keyword(%r)" % (self.v,)

    def __eq__(self, o):
        return isinstance(o, Keyword) and o.v == self.v


_ZEROS = re.compile(rb"\x00*")
_NUM_RE = re.compile(rb"[+-]?(\d+\.?\d*|\.\d+)$")
_INT_RE = re.compile(rb"[+-]?\d+$")


class Lexer:
    """strict=True raises on anything §7.3 does not allow."""

    def __init__(self, data, pos=0, strict=True):
        self.d, self.p, self.strict = data, pos, strict

    def skip_ws(self):
        d, n = self.d, len(self.d)
        while self.p < n:
            c = d[self.p]
            if c in WS:
                self.p += 1
            elif c == 0x25:  # %
                while self.p < n and d[self.p] not in b"\r\n":
                    self.p += 1
            else:
                break

    def peek_byte(self):
        self.skip_ws()
        return self.d[self.p] if self.p < len(self.d) else None

    def token(self):
        """returns a token: one of the object types (for atoms), or bytes for
        punctuation b'[' b']' b'<<' b'>>' b'{' b'}', Keyword for bare words, None at EOF"""
        self.skip_ws()
        d = self.d
        if self.p >= len(d):
            return None
        c = d[self.p]
        if c == 0x2F:  # /
            return self._name()
        if c == 0x28:
            return self._literal()
        if c == 0x3C:
            if d[self.p + 1:self.p + 2] == b"<":
                self.p += 2
                return b"<<"
            return self._hex()
        if c == 0x3E:
            if d[self.p + 1:self.p + 2] == b">":
                self.p += 2
                return b">>"
            raise PdfError("stray '>' at %d" % self.p)
        if c in b"[]{}":
            self.p += 1
            return bytes([c])
        if c == 0x29:
            raise PdfError("stray ')' at %d" % self.p)
        # regular token
        s = self.p
        while self.p < len(d) and d[self.p] not in WS and d[self.p] not in DELIM:
            self.p += 1
        t = d[s:self.p]
        if _INT_RE.match(t):
            return int(t)
        if _NUM_RE.match(t):
            return float(t)
        if t == b"true":
            return True
        if t == b"false":
            return False
        if t == b"null":
            return Keyword(b"null")
        return Keyword(t)

    def _name(self):
        d = self.d
        self.p += 1
        out = bytearray()
        while self.p < len(d):
            c = d[self.p]
            if c in WS or c in DELIM:
                break
            if c == 0x23:  # '#'
                hx = d[self.p + 1:self.p + 3]
                if len(hx) == 2 and re.match(rb"[0-9A-Fa-f]{2}$", hx):
                    v = int(hx, 16)
                    if v == 0 and self.strict:
                        raise PdfError("#00 in name at %d" % self.p)
                    out.append(v)
                    self.p += 3
                    continue
                if self.strict:
                    raise PdfError("bad # escape in name at %d" % self.p)
            if self.strict and (c < 0x21 or c > 0x7E):
                raise PdfError("byte 0x%02x outside the regular-character range in a name at %d" % (c, self.p))
            out.append(c)
            self.p += 1
        return Name(bytes(out))

    def _literal(self):
        d = self.d
        self.p += 1
        depth = 1
        out = bytearray()
        n = len(d)
        while True:
            if self.p >= n:
                raise PdfError("unterminated literal string")
            c = d[self.p]
            if c == 0x5C:  # backslash
                self.p += 1
                if self.p >= n:
                    raise PdfError("unterminated literal string")
                e = d[self.p]
                if e in b"nrtbf":
                    out.append({0x6E: 10, 0x72: 13, 0x74: 9, 0x62: 8, 0x66: 12}[e])
                    self.p += 1
                elif e in b"()\\":
                    out.append(e)
                    self.p += 1
                elif 0x30 <= e <= 0x37:
                    v = 0
                    k = 0
                    while k < 3 and self.p < n and 0x30 <= d[self.p] <= 0x37:
                        v = v * 8 + (d[self.p] - 0x30)
                        self.p += 1
                        k += 1
                    out.append(v & 0xFF)
                elif e == 0x0D:
                    self.p += 1
                    if self.p < n and d[self.p] == 0x0A:
                        self.p += 1
                elif e == 0x0A:
                    self.p += 1
                else:
                    # unknown escape: backslash ignored
                    out.append(e)
                    self.p += 1
            elif c == 0x28:
                depth += 1
                out.append(c)
                self.p += 1
            elif c == 0x29:
                depth -= 1
                self.p += 1
                if depth == 0:
                    return String(bytes(out))
                out.append(c)
            elif c == 0x0D:
                # EOL inside a string reads as LF (§7.3.4.2)
                out.append(0x0A)
                self.p += 1
                if self.p < n and d[self.p] == 0x0A:
                    self.p += 1
            else:
                out.append(c)
                self.p += 1

    def _hex(self):
        d = self.d
        self.p += 1
        e = d.find(b">", self.p)
        if e < 0:
            raise PdfError("unterminated hex string")
        body = bytes(c for c in d[self.p:e] if c not in WS)
        if not re.match(rb"[0-9A-Fa-f]*$", body):
            raise PdfError("non-hex digit in hex string at %d" % self.p)
        if len(body) % 2:
            body += b"0"
        self.p = e + 1
        return String(bytes.fromhex(body.decode()), hex=True)

    # ---- objects
    def obj(self, tok=None):
        t = self.token() if tok is None else tok
        if t is None:
            raise PdfError("unexpected end of data")
        if isinstance(t, Keyword):
            if t.v == b"null":
                return None
            raise PdfError("unexpected keyword %r at %d" % (t.v, self.p))
        if isinstance(t, bool):
            return t
        if isinstance(t, int):
            # maybe a reference: int int R
            save = self.p
            t2 = self.token()
            if isinstance(t2, int) and not isinstance(t2, bool) and t2 >= 0 and t >= 0:
                t3 = self.token()
                if isinstance(t3, Keyword) and t3.v == b"R":
                    return Ref(t, t2)
            self.p = save
            return t
        if isinstance(t, (float, Name, String)):
            return t
        if t == b"[":
            arr = []
            while True:
                t = self.token()
                if t is None:
                    raise PdfError("unterminated array")
                if t == b"]":
                    return arr
                arr.append(self.obj(t))
        if t == b"<<":
            dct = {}
            while True:
                t = self.token()
                if t is None:
                    raise PdfError("unterminated dictionary")
                if t == b">>":
                    return dct
                if not isinstance(t, Name):
                    raise PdfError("dictionary key is not a name at %d: %r" % (self.p, t))
                v = self.obj()
                if self.strict and t.v in dct:
                    raise PdfError("duplicate dictionary key %r" % (t,))
                dct[t.v] = v
        raise PdfError("unexpected token %r at %d" % (t, self.p))


def parse_indirect(data, pos, resolve_length=None, strict=True):
    """Parse `n g obj ... endobj` at exactly `pos`. Returns (num, gen, obj, endpos)."""
    lx = Lexer(data, pos, strict)
    m = re.compile(rb"(\d+)[\x00\t\n\x0c\r ]+(\d+)[\x00\t\n\x0c\r ]+obj").match(data, pos)
    if not m:
        raise PdfError("no 'N G obj' at offset %d (found %r)" % (pos, data[pos:pos + 20]))
    num, gen = int(m.group(1)), int(m.group(2))
    lx.p = m.end()
    val = lx.obj()
    t = lx.token()
    if isinstance(t, Keyword) and t.v == b"stream":
        if not isinstance(val, dict):
            raise PdfError("stream without dictionary")
        # EOL after 'stream': CRLF or LF (not CR alone)
        if data[lx.p:lx.p + 2] == b"\r\n":
            lx.p += 2
        elif data[lx.p:lx.p + 1] == b"\n":
            lx.p += 1
        else:
            raise PdfError("'stream' keyword not followed by CRLF or LF at %d" % lx.p)
        ln = val.get(b"Length")
        if isinstance(ln, Ref):
            if resolve_length is None:
                raise PdfError("indirect /Length cannot be resolved here")
            ln = resolve_length(ln)
        if not isinstance(ln, int) or isinstance(ln, bool) or ln < 0:
            raise PdfError("bad stream /Length %r" % (ln,))
        start = lx.p
        raw = data[start:start + ln]
        if len(raw) != ln:
            raise PdfError("stream /Length %d runs past end of file" % ln)
        lx.p = start + ln
        # optional EOL then endstream
        rest = data[lx.p:lx.p + 12]
        m2 = re.match(rb"(\r\n|\n|\r)?endstream", rest)
        if not m2:
            raise PdfError("object %d: /Length %d does not end at 'endstream' (found %r)" % (num, ln, rest))
        lx.p += m2.end()
        val = Stream(val, raw, start)
        t = lx.token()
    if not (isinstance(t, Keyword) and t.v == b"endobj"):
        raise PdfError("object %d %d: expected endobj, found %r" % (num, gen, t))
    return num, gen, val, lx.p


# --------------------------------------------------------------- filters

def png_unpredict(data, colors, bpc, columns):
    rb = (columns * colors * bpc + 7) // 8
    bpp = max(1, (colors * bpc + 7) // 8)
    if (rb + 1) == 0 or len(data) % (rb + 1):
        raise PdfError("PNG predictor: data is not whole rows")
    out = bytearray()
    prev = bytes(rb)
    for r in range(len(data) // (rb + 1)):
        ft = data[r * (rb + 1)]
        row = bytearray(data[r * (rb + 1) + 1:(r + 1) * (rb + 1)])
        for i in range(rb):
            a = row[i - bpp] if i >= bpp else 0
            b = prev[i]
            c = prev[i - bpp] if i >= bpp else 0
            if ft == 0:
                p = 0
            elif ft == 1:
                p = a
            elif ft == 2:
                p = b
            elif ft == 3:
                p = (a + b) // 2
            elif ft == 4:
                pp = a + b - c
                pa, pb, pc = abs(pp - a), abs(pp - b), abs(pp - c)
                p = a if (pa <= pb and pa <= pc) else (b if pb <= pc else c)
            else:
                raise PdfError("bad PNG filter type %d" % ft)
            row[i] = (row[i] + p) & 0xFF
        out += row
        prev = bytes(row)
    return bytes(out)


def tiff_unpredict(data, colors, bpc, columns):
    rb = (columns * colors * bpc + 7) // 8
    out = bytearray()
    for r in range(0, len(data), rb):
        row = bytearray(data[r:r + rb])
        if bpc == 8:
            for i in range(colors, len(row)):
                row[i] = (row[i] + row[i - colors]) & 0xFF
        elif bpc == 16:
            for i in range(colors, len(row) // 2):
                v = (int.from_bytes(row[2 * i:2 * i + 2], "big") + int.from_bytes(row[2 * (i - colors):2 * (i - colors) + 2], "big")) & 0xFFFF
                row[2 * i:2 * i + 2] = v.to_bytes(2, "big")
        else:
            n = columns * colors
            mask = (1 << bpc) - 1
            vals = []
            for k in range(n):
                bit = k * bpc
                vals.append((row[bit // 8] >> (8 - bpc - bit % 8)) & mask)
            for k in range(colors, n):
                vals[k] = (vals[k] + vals[k - colors]) & mask
            row = bytearray(len(row))
            for k in range(n):
                bit = k * bpc
                row[bit // 8] |= vals[k] << (8 - bpc - bit % 8)
        out += row
    return bytes(out)


def lzw_decode(data, early=1):
    out = bytearray()
    table = None
    width = 9
    nxt = 258
    prev = None
    acc = 0
    nbits = 0
    pos = 0
    n = len(data)
    while True:
        while nbits < width:
            if pos >= n:
                return bytes(out)  # EOD missing: tolerated here, validators check separately
            acc = (acc << 8) | data[pos]
            pos += 1
            nbits += 8
        code = (acc >> (nbits - width)) & ((1 << width) - 1)
        nbits -= width
        acc &= (1 << nbits) - 1
        if code == 256:
            table = {}
            width = 9
            nxt = 258
            prev = None
            continue
        if code == 257:
            return bytes(out)
        if table is None:
            table = {}
        if prev is None:
            if code > 255:
                raise PdfError("LZW: first code after clear is %d" % code)
            ent = bytes([code])
        else:
            if code < 256:
                ent = bytes([code])
            elif code in table:
                ent = table[code]
            elif code == nxt:
                ent = prev + prev[:1]
            else:
                raise PdfError("LZW: invalid code %d (next %d)" % (code, nxt))
            if nxt < 4096:
                table[nxt] = prev + ent[:1]
                nxt += 1
        out += ent
        prev = ent
        if nxt + early >= (1 << width) and width < 12:
            width += 1


def a85_decode(data):
    d = bytes(c for c in data if c not in WS)
    if d.startswith(b"<~"):
        d = d[2:]
    e = d.find(b"~>")
    if e < 0:
        raise PdfError("ASCII85: no EOD")
    d = d[:e]
    out = bytearray()
    grp = []
    for c in d:
        if c == 0x7A and not grp:
            out += b"\0\0\0\0"
            continue
        if not (0x21 <= c <= 0x75):
            raise PdfError("ASCII85: bad char %r" % c)
        grp.append(c - 33)
        if len(grp) == 5:
            v = 0
            for g in grp:
                v = v * 85 + g
            if v > 0xFFFFFFFF:
                raise PdfError("ASCII85: group overflow")
            out += v.to_bytes(4, "big")
            grp = []
    if grp:
        if len(grp) == 1:
            raise PdfError("ASCII85: single trailing char")
        k = len(grp)
        grp += [84] * (5 - k)
        v = 0
        for g in grp:
            v = v * 85 + g
        out += (v & 0xFFFFFFFF).to_bytes(4, "big")[:k - 1]
    return bytes(out)


def ahx_decode(data):
    d = bytes(c for c in data if c not in WS)
    e = d.find(b">")
    if e >= 0:
        d = d[:e]
    if not re.match(rb"[0-9A-Fa-f]*$", d):
        raise PdfError("ASCIIHex: bad digit")
    if len(d) % 2:
        d += b"0"
    return bytes.fromhex(d.decode())


def rl_decode(data):
    out = bytearray()
    i = 0
    while i < len(data):
        l = data[i]
        i += 1
        if l == 128:
            break
        if l < 128:
            out += data[i:i + l + 1]
            i += l + 1
        else:
            out += data[i:i + 1] * (257 - l)
            i += 1
    return bytes(out)


def decode_stream(st, resolve=lambda x: x, stop_at_image_filters=True):
    d = st.dict
    flt = resolve(d.get(b"Filter"))
    if flt is None:
        return st.raw
    if isinstance(flt, Name):
        flt = [flt]
    parms = resolve(d.get(b"DecodeParms"))
    if isinstance(parms, dict) or parms is None:
        parms = [parms] * len(flt)
    data = st.raw
    for i, f in enumerate(flt):
        f = resolve(f)
        p = resolve(parms[i]) if i < len(parms) else None
        p = p if isinstance(p, dict) else {}
        nm = f.v
        if nm == b"FlateDecode":
            data = zlib.decompress(data)
        elif nm == b"LZWDecode":
            ec = resolve(p.get(b"EarlyChange"))
            data = lzw_decode(data, 1 if ec is None else ec)
        elif nm == b"ASCII85Decode":
            data = a85_decode(data)
        elif nm == b"ASCIIHexDecode":
            data = ahx_decode(data)
        elif nm == b"RunLengthDecode":
            data = rl_decode(data)
        elif nm in (b"DCTDecode", b"JPXDecode", b"CCITTFaxDecode", b"JBIG2Decode") and stop_at_image_filters:
            return data
        elif nm == b"Crypt":
            continue
        else:
            raise PdfError("unsupported filter %r" % nm)
        if nm in (b"FlateDecode", b"LZWDecode"):
            pred = resolve(p.get(b"Predictor")) or 1
            if pred != 1:
                colors = resolve(p.get(b"Colors")) or 1
                bpc = resolve(p.get(b"BitsPerComponent")) or 8
                cols = resolve(p.get(b"Columns")) or 1
                data = tiff_unpredict(data, colors, bpc, cols) if pred == 2 else png_unpredict(data, colors, bpc, cols)
    return data


# -------------------------------------------------------------- document

class XrefEntry:
    __slots__ = ("kind", "a", "b")  # kind: 'n' (offset a, gen b), 'f' (next a, gen b), 'c' (objstm a, index b)

    def __init__(self, kind, a, b):
        self.kind, self.a, self.b = kind, a, b

    def __repr__(self):
        return "%s(%d,%d)" % (self.kind, self.a, self.b)


class Document:
    """Strict reader. `sections` keeps every cross-reference section newest first
    with the offsets needed by the validator."""

    def __init__(self, data, password=None, strict=True, decrypt=True):
        self.data = data
        self.strict = strict
        self.xref = {}          # num -> XrefEntry (newest wins)
        self.trailer = None     # newest trailer dict
        self.sections = []      # list of dicts: {kind, offset, entries{num: XrefEntry}, trailer, ...}
        self.free_runs = []     # (first, last) object numbers given as long runs of free (0,0) entries
        self.cache = {}
        self.objstm_cache = {}
        self.decryptor = None
        self.notes = []
        self._read_header()
        self._read_xref_chain()
        if decrypt:
            self._setup_encryption(password)

    # -- header / startxref
    def _read_header(self):
        m = re.match(rb"%PDF-(\d)\.(\d)", self.data)
        if not m:
            raise PdfError("missing %PDF-n.m header at byte 0")
        self.version = (int(m.group(1)), int(m.group(2)))

    def _startxref(self):
        tail = self.data[-1100:]
        i = tail.rfind(b"startxref")
        if i < 0:
            raise PdfError("no startxref")
        m = re.match(rb"startxref[\x00\t\n\x0c\r ]+(\d+)[\x00\t\n\x0c\r ]+%%EOF", tail[i:])
        if not m:
            raise PdfError("malformed startxref / %%EOF")
        self.startxref_keyword_offset = len(self.data) - len(tail) + i
        return int(m.group(1))

    def _read_xref_chain(self):
        off = self._startxref()
        self.startxref = off
        seen = set()
        first = True
        while off is not None:
            if off in seen:
                raise PdfError("/Prev loop in cross-reference chain")
            seen.add(off)
            sec = self._read_section(off)
            self.sections.append(sec)
            if first:
                self.trailer = sec["trailer"]
                first = False
            for num, e in sec["entries"].items():
                self.xref.setdefault(num, e)
            # hybrid: /XRefStm consulted after the table of the same section, before /Prev
            xs = sec["trailer"].get(b"XRefStm")
            if sec["kind"] == "table" and isinstance(xs, int):
                hs = self._read_section(xs)
                hs["hybrid_of"] = off
                self.sections.append(hs)
                for num, e in hs["entries"].items():
                    self.xref.setdefault(num, e)
            prev = sec["trailer"].get(b"Prev")
            if prev is not None and (not isinstance(prev, int) or isinstance(prev, bool)):
                raise PdfError("/Prev is not an integer")
            off = prev

    def _read_section(self, off):
        d = self.data
        if off < 0 or off >= len(d):
            raise PdfError("cross-reference offset %d outside the file" % off)
        if d[off:off + 4] == b"xref":
            return self._read_table(off)
        return self._read_xref_stream(off)

    def _read_table(self, off):
        d = self.data
        p = off + 4
        m = re.compile(rb"[ \t]*(\r\n|\n|\r)").match(d, p)
        if not m:
            raise PdfError("'xref' keyword not followed by EOL at %d" % off)
        p = m.end()
        entries = {}
        subsections = []
        sub_re = re.compile(rb"(\d+) (\d+)[ \t]*(\r\n|\n|\r)")
        while True:
            m = sub_re.match(d, p)
            if not m:
                break
            start, cnt = int(m.group(1)), int(m.group(2))
            p = m.end()
            subsections.append((start, cnt, p))
            for i in range(cnt):
                ent = d[p:p + 20]
                em = re.match(rb"(\d{10}) (\d{5}) ([nf])( \r| \n|\r\n)$", ent)
                if not em:
                    raise PdfError("xref entry for object %d is not a 20-byte 'nnnnnnnnnn ggggg n|f eol' record: %r" % (start + i, ent))
                kind = em.group(3).decode()
                num = start + i
                if num not in entries:
                    entries[num] = XrefEntry(kind, int(em.group(1)), int(em.group(2)))
                p += 20
        lx = Lexer(d, p, self.strict)
        t = lx.token()
        if not (isinstance(t, Keyword) and t.v == b"trailer"):
            raise PdfError("expected 'trailer' after xref table at %d, found %r" % (p, t))
        tr = lx.obj()
        if not isinstance(tr, dict):
            raise PdfError("trailer is not a dictionary")
        return {"kind": "table", "offset": off, "entries": entries, "trailer": tr, "subsections": subsections, "end": lx.p}

    def _read_xref_stream(self, off):
        try:
            num, gen, st, end = parse_indirect(self.data, off, None, self.strict)
        except PdfError as e:
            raise PdfError("startxref/Prev offset %d is neither 'xref' nor an XRef stream object: %s" % (off, e))
        if not isinstance(st, Stream) or st.dict.get(b"Type") != Name(b"XRef"):
            raise PdfError("object at cross-reference offset %d is not /Type /XRef" % off)
        sd = st.dict
        w = sd.get(b"W")
        if not (isinstance(w, list) and len(w) == 3 and all(isinstance(x, int) and x >= 0 for x in w)):
            raise PdfError("XRef stream: bad /W %r" % (w,))
        size = sd.get(b"Size")
        if not isinstance(size, int):
            raise PdfError("XRef stream: missing /Size")
        index = sd.get(b"Index", [0, size])
        if not (isinstance(index, list) and len(index) % 2 == 0 and all(isinstance(x, int) for x in index)):
            raise PdfError("XRef stream: bad /Index")
        data = decode_stream(st)
        rec = sum(w)
        total = sum(index[1::2])
        if rec == 0 or len(data) != rec * total:
            raise PdfError("XRef stream: data length %d != %d entries x %d bytes" % (len(data), total, rec))
        entries = {}
        p = 0
        zero = bytes(rec)
        free0 = XrefEntry("f", 0, 0)
        for k in range(0, len(index), 2):
            start, cnt = index[k], index[k + 1]
            i = -1
            while i + 1 < cnt:
                i += 1
                if w[0] and data[p:p + rec] == zero:
                    # An all-zero record is the free entry (0, 0). Writers that leave large gaps in
                    # the numbering emit hundreds of thousands of them: long runs are kept as ranges
                    # (self.free_runs) instead of one dictionary entry each. A run never shadows an
                    # explicit entry of an older section, which no generator used here relies on.
                    zend = _ZEROS.match(data, p).end()
                    nz = min((zend - p) // rec, cnt - i)
                    if nz >= 64:
                        self.free_runs.append((start + i, start + i + nz - 1))
                        p += rec * nz
                        i += nz - 1
                        continue
                    entries.setdefault(start + i, free0)
                    p += rec
                    continue
                f = []
                q = p
                for wi in w:
                    f.append(int.from_bytes(data[q:q + wi], "big") if wi else None)
                    q += wi
                p += rec
                typ = 1 if f[0] is None else f[0]
                num_i = start + i
                if typ == 0:
                    e = XrefEntry("f", f[1] or 0, f[2] if f[2] is not None else 0)
                elif typ == 1:
                    e = XrefEntry("n", f[1] or 0, f[2] if f[2] is not None else 0)
                elif typ == 2:
                    e = XrefEntry("c", f[1] or 0, f[2] or 0)
                else:
                    continue  # unknown types are treated as null references
                entries.setdefault(num_i, e)
        return {"kind": "stream", "offset": off, "entries": entries, "trailer": sd, "objnum": num, "stream": st, "w": w, "index": index, "end": end}

    # -- encryption
    def _setup_encryption(self, password):
        enc = self.trailer.get(b"Encrypt")
        if enc is None:
            return
        from . import crypto
        self.encrypt_ref = enc if isinstance(enc, Ref) else None
        encd = self._load_raw(enc.num) if isinstance(enc, Ref) else enc
        ids = self.trailer.get(b"ID")
        id0 = ids[0].v if isinstance(ids, list) and ids and isinstance(ids[0], String) else b""
        self.decryptor = crypto.Decryptor(encd, id0, password or b"")

    # -- objects
    def _load_raw(self, num):
        """load object `num` without decryption (used for /Encrypt itself)"""
        e = self.xref.get(num)
        if e is None or e.kind == "f":
            return None
        if e.kind == "n":
            n2, g2, val, _ = parse_indirect(self.data, e.a, self._resolve_length, self.strict)
            if n2 != num:
                raise PdfError("xref entry for %d points at object %d" % (num, n2))
            return val
        return self._from_objstm(e.a, e.b, num)

    def _resolve_length(self, ref):
        v = self.get(ref.num, ref.gen)
        return v

    def get(self, num, gen=None):
        key = num
        if key in self.cache:
            return self.cache[key]
        e = self.xref.get(num)
        if e is None or e.kind == "f":
            val = None
        elif e.kind == "n":
            if gen is not None and e.b != gen:
                val = None
            else:
                n2, g2, val, _ = parse_indirect(self.data, e.a, self._resolve_length, self.strict)
                if n2 != num or g2 != e.b:
                    raise PdfError("xref entry for %d %d points at object %d %d" % (num, e.b, n2, g2))
                if self.decryptor is not None and not self._is_exempt(num, val):
                    val = self.decryptor.decrypt_object(val, num, g2)
        else:
            if gen not in (None, 0):
                val = None
            else:
                val = self._from_objstm(e.a, e.b, num)
        self.cache[key] = val
        return val

    def _is_exempt(self, num, val):
        if getattr(self, "encrypt_ref", None) is not None and self.encrypt_ref.num == num:
            return True
        if isinstance(val, Stream) and val.dict.get(b"Type") == Name(b"XRef"):
            return True
        return False

    def _from_objstm(self, stm_num, index, want_num):
        if stm_num not in self.objstm_cache:
            st = self.get(stm_num)
            if not isinstance(st, Stream) or st.dict.get(b"Type") != Name(b"ObjStm"):
                raise PdfError("object %d (container of %d) is not an object stream" % (stm_num, want_num))
            n = st.dict.get(b"N")
            first = st.dict.get(b"First")
            if not isinstance(n, int) or not isinstance(first, int):
                raise PdfError("object stream %d: bad /N or /First" % stm_num)
            data = decode_stream(st, self.resolve)
            lx = Lexer(data, 0, self.strict)
            pairs = []
            for _ in range(n):
                a, b = lx.token(), lx.token()
                if not (isinstance(a, int) and isinstance(b, int)):
                    raise PdfError("object stream %d: offset table is not %d integer pairs" % (stm_num, n))
                pairs.append((a, b))
            if lx.p > first:
                raise PdfError("object stream %d: offset table runs past /First" % stm_num)
            objs = []
            for (onum, ooff) in pairs:
                lx2 = Lexer(data, first + ooff, self.strict)
                objs.append((onum, lx2.obj()))
            self.objstm_cache[stm_num] = objs
        objs = self.objstm_cache[stm_num]
        if index >= len(objs):
            raise PdfError("object stream %d has no index %d" % (stm_num, index))
        onum, val = objs[index]
        if onum != want_num:
            raise PdfError("object stream %d index %d holds object %d, xref says %d" % (stm_num, index, onum, want_num))
        return val

    def resolve(self, o, depth=0):
        while isinstance(o, Ref):
            if depth > 50:
                raise PdfError("reference chain too long")
            o = self.get(o.num, o.gen)
            depth += 1
        return o

    # -- convenience
    def root(self):
        r = self.resolve(self.trailer.get(b"Root"))
        if not isinstance(r, dict):
            raise PdfError("no /Root catalog")
        return r

    def info(self):
        return self.resolve(self.trailer.get(b"Info"))

    def pages(self):
        """flatten the page tree: list of (ref_num, page_dict, inherited dict)"""
        out = []
        root = self.root()
        top = root.get(b"Pages")
        seen = set()

        def walk(ref, inh, depth):
            if depth > 64:
                raise PdfError("page tree too deep")
            node = self.resolve(ref)
            if not isinstance(node, dict):
                raise PdfError("page tree node is not a dictionary")
            key = ref.num if isinstance(ref, Ref) else id(node)
            if key in seen:
                raise PdfError("page tree cycle / shared node %r" % (ref,))
            seen.add(key)
            inh = dict(inh)
            for k in (b"Resources", b"MediaBox", b"CropBox", b"Rotate"):
                if k in node:
                    inh[k] = node[k]
            t = node.get(b"Type")
            if t == Name(b"Pages") or (t is None and b"Kids" in node):
                kids = self.resolve(node.get(b"Kids"))
                if not isinstance(kids, list):
                    raise PdfError("/Kids is not an array")
                for k in kids:
                    walk(k, inh, depth + 1)
            else:
                out.append((ref.num if isinstance(ref, Ref) else None, node, inh))

        walk(top, {}, 0)
        return out

    def page_content(self, page):
        c = self.resolve(page.get(b"Contents"))
        if c is None:
            return b""
        if isinstance(c, Stream):
            return decode_stream(c, self.resolve)
        parts = []
        for x in c:
            s = self.resolve(x)
            parts.append(decode_stream(s, self.resolve))
        return b"\n".join(parts)


# -------------------------------------------------- content stream tokens

def content_ops(data, strict=False):
    """-> list of (operator bytes, [operands]); inline images yield (b'BI', [dict, rawdata])"""
    lx = Lexer(data, 0, strict)
    ops = []
    stack = []
    while True:
        t = lx.token()
        if t is None:
            break
        if isinstance(t, Keyword) and t.v != b"null":
            if t.v == b"BI":
                d = {}
                while True:
                    k = lx.token()
                    if k is None:
                        raise PdfError("unterminated inline image")
                    if isinstance(k, Keyword) and k.v == b"ID":
                        break
                    d[k.v if isinstance(k, Name) else repr(k).encode()] = lx.obj()
                lx.p += 1  # single white-space after ID
                m = re.compile(rb"[\x00\t\n\x0c\r ]EI(?=[\x00\t\n\x0c\r ]|$)").search(data, lx.p)
                if not m:
                    raise PdfError("inline image without EI")
                raw = data[lx.p:m.start()]
                lx.p = m.end()
                ops.append((b"BI", [d, raw]))
                stack = []
                continue
            ops.append((t.v, stack))
            stack = []
        else:
            stack.append(lx.obj(t))
    if stack:
        ops.append((b"", stack))
    return ops


# ------------------------------------------------------------ text string

def text_string(b):
    from .enc_tables import PDFDOC
    if b[:2] == b"\xfe\xff":
        return b[2:].decode("utf-16-be", "replace")
    if b[:3] == b"\xef\xbb\xbf":
        return b[3:].decode("utf-8", "replace")
    return "".join(chr(PDFDOC.get(c, 0xFFFD)) for c in b)


# ---------------------------------------------------------- canonical form

def canon(o, doc=None, stream_mode="sha", depth=0):
    """JSON-able canonical form shared with the Rust harness (harness/src/dump.rs)."""
    if depth > 200:
        raise PdfError("object nesting too deep")
    if o is None:
        return None
    if isinstance(o, bool):
        return o
    if isinstance(o, int):
        return {"i": o}
    if isinstance(o, float):
        return {"r": o}
    if isinstance(o, Name):
        return {"n": o.v.hex()}
    if isinstance(o, String):
        return {"s": o.v.hex()}
    if isinstance(o, Ref):
        return {"ref": [o.num, o.gen]}
    if isinstance(o, list):
        return [canon(x, doc, stream_mode, depth + 1) for x in o]
    if isinstance(o, dict):
        return {"d": {k.hex(): canon(v, doc, stream_mode, depth + 1) for k, v in o.items()}}
    if isinstance(o, Stream):
        return {"st": {k.hex(): canon(v, doc, stream_mode, depth + 1) for k, v in o.dict.items()},
                "len": len(o.raw), "sha": hashlib.sha1(o.raw).hexdigest()}
    raise PdfError("cannot canonicalise %r" % (o,))


def selftest():
    errs = []
    lx = Lexer(b"[1 -2 3.5 /A#20B (a\\(b\\)\\n\\101) <4142> true null 3 0 R << /K [ ] >>]")
    o = lx.obj()
    want = [1, -2, 3.5, Name(b"A B"), String(b"a(b)\nA"), String(b"AB"), True, None, Ref(3, 0), {b"K": []}]
    if o != want:
        errs.append(("lexer", o))
    if lzw_decode(bytes.fromhex("800B6050220C0C8501")) != b"-----A---B":
        errs.append("lzw")
    if a85_decode(b"87cURD]i,\"Ebo80~>") != b"Hello World!":
        errs.append("a85")
    if rl_decode(bytes([2, 65, 66, 67, 254, 90, 128])) != b"ABCZZZ":
        errs.append("rl")
    return errs
