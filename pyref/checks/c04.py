"""C04 — the newest revision of an object always wins.
phase=gen: write revision histories (pdfgen) + model; phase=check: compare the
library's observations (OBS) and pyref's own strict reading with the model."""
import json, os
from .common import args, rng, load_obs, load_cases
from .. import pdf, pdfgen
from ..pdf import Name, String, Ref, Stream
from ..recpy import Recorder

PRESETS = ["strict", "default", "tolerant", "skip_errors"]


def marker_obj(num, rev, r):
    m = "obj%d-rev%d-%d" % (num, rev, r.randrange(10 ** 6))
    kind = r.randrange(4)
    if kind == 0:
        return m, {b"Marker": String(m.encode()), b"V": rev}
    if kind == 1:
        return m, [String(m.encode()), num, rev]
    if kind == 2:
        return m, String(m.encode())
    return m, {b"Type": Name(b"VerifObj"), b"Marker": String(m.encode()), b"Kids": [Ref(1, 0)]}


def gen_history(seed, cno, tier, recovery=False):
    r = rng(seed, "c04", cno)
    w = pdfgen.Writer(version=r.choice([b"1.5", b"1.6", b"1.7"]))
    nobj = r.randint(4, 12)
    nrev = r.randint(1, 5)
    first_free = 4
    nums = list(range(first_free, first_free + nobj))
    next_num = first_free + nobj
    # model: num -> dict(state='live'|'free', gen, marker, form, rev)
    model = {}
    forms_seen = []
    page_content = Stream({}, b"BT ET")
    structural = {1: {b"Type": Name(b"Catalog"), b"Pages": Ref(2, 0)},
                  2: {b"Type": Name(b"Pages"), b"Kids": [Ref(3, 0)], b"Count": 1},
                  3: {b"Type": Name(b"Page"), b"Parent": Ref(2, 0), b"MediaBox": [0, 0, 200, 200]}}
    transitions = set()
    history = {}
    for rev in range(nrev + 1):
        w.begin()
        kind = "table" if recovery else r.choice(["table", "stream"])
        todo = []  # (num, action)
        if rev == 0:
            for n in (1, 2, 3):
                w.put(n, 0, structural[n])
            for n in nums:
                todo.append((n, "define"))
        else:
            k = r.randint(1, max(1, len(nums) // 2))
            for n in r.sample(nums, k):
                st = model[n]
                if st["state"] == "free":
                    todo.append((n, "readd"))
                else:
                    todo.append((n, r.choice(["redefine", "redefine", "redefine"] if recovery else ["redefine", "redefine", "free"])))
        compressed = []
        for n, act in todo:
            if act == "free":
                g = model[n]["gen"] + 1
                w.free(n, g)
                old = model[n]
                model[n] = {"state": "free", "gen": g, "marker": None, "form": "free_" + kind, "rev": rev, "prev_form": old["form"]}
                history.setdefault(n, []).append((rev, "free_" + kind, None))
                transitions.add(old["form"] + "->" + "free_" + kind)
                continue
            g = model[n]["gen"] if n in model else 0
            m, obj = marker_obj(n, rev, r)
            can_compress = (kind == "stream") and g == 0 and not recovery
            if can_compress and r.random() < 0.5:
                compressed.append((n, obj, m))
            else:
                w.put(n, g, obj)
                form = "plain_" + kind
                if n in model:
                    transitions.add(model[n]["form"] + "->" + form)
                model[n] = {"state": "live", "gen": g, "marker": m, "form": form, "rev": rev, "prev_form": model.get(n, {}).get("form")}
                history.setdefault(n, []).append((rev, form, m))
        if compressed:
            stm = next_num
            next_num += 1
            w.put_objstm(stm, [(n, o) for n, o, _ in compressed], compress=r.random() < 0.7)
            for n, o, m in compressed:
                form = "compressed"
                if n in model:
                    transitions.add(model[n]["form"] + "->" + form)
                model[n] = {"state": "live", "gen": 0, "marker": m, "form": form, "rev": rev, "prev_form": model.get(n, {}).get("form")}
                history.setdefault(n, []).append((rev, form, m))
        xn = None
        if kind == "stream":
            xn = next_num
            next_num += 1
        w.end(kind, Ref(1, 0), xref_num=xn, first=(rev == 0), compress_xref=r.random() < 0.7)
    data = bytearray(w.bytes())
    damage = None
    if recovery:
        damage = r.choice(["startxref_zero", "startxref_past_eof", "startxref_removed", "xref_keyword_broken"])
        tail = data.rfind(b"startxref")
        if damage == "startxref_zero":
            data[tail:] = b"startxref\n0\n%%EOF\n"
        elif damage == "startxref_past_eof":
            data[tail:] = b"startxref\n%d\n%%%%EOF\n" % (len(data) + 1000)
        elif damage == "startxref_removed":
            # every revision's startxref goes: otherwise the reader legitimately
            # opens the previous revision through its intact startxref
            data = bytearray(bytes(data).replace(b"startxref", b"startxrfe"))
        else:
            i = data.rfind(b"xref\n", 0, tail)
            data[i:i + 4] = b"xrfe"
    for n in model:
        model[n]["history"] = history.get(n, [])
    return bytes(data), model, sorted(transitions), damage


def phase_gen(out, seed, tier, kv):
    d = os.path.join(out, "cases")
    os.makedirs(d, exist_ok=True)
    n = 1500 if tier == "quick" else 20000
    with open(os.path.join(d, "cases.jsonl"), "w") as f:
        for c in range(n):
            recovery = (c % 5 == 4)
            data, model, trans, damage = gen_history(seed, c, tier, recovery)
            fn = "h%06d.pdf" % c
            open(os.path.join(d, fn), "wb").write(data)
            objs = [[num, st["gen"]] for num, st in sorted(model.items())]
            f.write(json.dumps({"id": "c04-%d" % c, "file": fn, "presets": ["default", "tolerant", "skip_errors"] if recovery else PRESETS,
                                "objects": objs, "model": {str(k): v for k, v in model.items()}, "transitions": trans,
                                "recovery": recovery, "damage": damage}) + "\n")


def marker_of(canon):
    """find the marker string inside a canonical object"""
    s = json.dumps(canon)
    import re
    for hx in re.findall(r'"s": "([0-9a-f]+)"', s):
        try:
            t = bytes.fromhex(hx).decode()
        except Exception:
            continue
        if t.startswith("obj") and "-rev" in t:
            return t
    return None


def phase_check(out, seed, tier, kv):
    rec = Recorder("py")
    d = os.path.join(out, "cases")
    cases = load_cases(d)
    obs = load_obs(out)
    for cid, c in cases.items():
        model = c["model"]
        nontrivial = any("->" in t and t.split("->")[0].split("_")[0] != t.split("->")[1].split("_")[0] or
                         ("table" in t and "stream" in t) for t in c["transitions"])
        rec.case(cid, nontrivial=nontrivial)
        for t in c["transitions"]:
            rec.set_add("transitions_old_to_new_form", t)
        data = open(os.path.join(d, c["file"]), "rb").read()
        # (1) the reference must agree with the generator's model first
        if not c["recovery"]:
            try:
                doc = pdf.Document(data)
                bad = None
                for num, st in model.items():
                    v = doc.get(int(num), st["gen"])
                    if st["state"] == "free":
                        if v is not None:
                            bad = "pyref reads freed object %s as %r" % (num, v)
                    else:
                        if marker_of(pdf.canon(v)) != st["marker"]:
                            bad = "pyref reads object %s as %r, model marker %s" % (num, v, st["marker"])
                if bad:
                    rec.inconc("generator/reference disagreement (harness error) in %s: %s" % (cid, bad))
                    continue
            except pdf.PdfError as e:
                rec.inconc("reference rejects generated history %s: %s" % (cid, e))
                continue
        # (2) the library
        for preset, o in obs.get(cid, {}).items():
            rec.count("observations")
            if "panic" in o:
                rec.violation("C04|panic|%s" % o["panic"], o.get("panic_msg", ""), {"case": cid, "file_hex": data.hex() if len(data) < 6000 else None})
                continue
            if o.get("open_err"):
                if c["recovery"]:
                    rec.violation("C04|recovery|open_fails|%s" % c["damage"], "preset %s cannot open a history whose %s: %s" % (preset, c["damage"], o["open_err"]),
                                  {"case": cid, "seed": seed, "preset": preset})
                else:
                    rec.violation("C04|valid_history_does_not_open|%s" % preset, "%s: %s (transitions %s)" % (cid, o["open_err"], c["transitions"]),
                                  {"case": cid, "seed": seed, "preset": preset, "file_hex": data.hex() if len(data) < 8000 else None})
                continue
            if c["recovery"]:
                rec.count("recovery_observations")
                if o.get("events", {}).get("xref.recovery"):
                    rec.count("recovery_path_taken")
            for num, st in model.items():
                key = "%s %d" % (num, st["gen"])
                got = o.get("objects", {}).get(key)
                if got is None and key not in o.get("objects", {}):
                    continue
                fam = "recovery_scan" if c["recovery"] else "xref_chain"
                if st["state"] == "free":
                    if got is not None and not (isinstance(got, dict) and "err" in got):
                        mk = marker_of(got)
                        ret_form = next((h[1] for h in st.get("history", []) if h[2] == mk), "unknown")
                        rec.violation("C04|%s|freed_object_still_readable|returned=%s|freed_in=%s" % (fam, ret_form, st["form"]),
                                      "%s preset %s: object %s was freed in revision %d but get_object returns %s" % (cid, preset, num, st["rev"], json.dumps(got)[:200]),
                                      {"case": cid, "seed": seed, "preset": preset, "object": num, "file_hex": data.hex() if len(data) < 8000 else None})
                    continue
                if isinstance(got, dict) and "err" in got:
                    rec.violation("C04|%s|newest_definition_unreadable|new=%s|%s" % (fam, st["form"], preset),
                                  "%s preset %s: object %s (newest in rev %d, %s): %s" % (cid, preset, num, st["rev"], st["form"], got["err"]),
                                  {"case": cid, "seed": seed, "preset": preset, "object": num, "file_hex": data.hex() if len(data) < 8000 else None})
                    continue
                mk = marker_of(got)
                if mk != st["marker"]:
                    stale_rev = mk.split("-rev")[1].split("-")[0] if mk else "?"
                    ret_form = next((h[1] for h in st.get("history", []) if h[2] == mk), "unknown")
                    rec.violation("C04|%s|stale_or_wrong_value|returned=%s|newest=%s" % (fam, ret_form, st["form"]),
                                  "%s preset %s: object %s resolves to marker %s (revision %s), newest is %s (revision %d, %s)"
                                  % (cid, preset, num, mk, stale_rev, st["marker"], st["rev"], st["form"]),
                                  {"case": cid, "seed": seed, "preset": preset, "object": num, "file_hex": data.hex() if len(data) < 8000 else None})
        if len(rec.samples) < 3:
            rec.sample({"case": cid, "transitions": c["transitions"], "recovery": c["recovery"], "damage": c["damage"],
                        "model": {k: {"state": v["state"], "form": v["form"], "rev": v["rev"]} for k, v in list(model.items())[:6]}})
    rec.write(out)


if __name__ == "__main__":
    out, seed, tier, kv = args()
    if kv.get("phase") == "gen":
        phase_gen(out, seed, tier, kv)
    else:
        phase_check(out, seed, tier, kv)
