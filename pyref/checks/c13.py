"""C13 — text in embedded fonts is recoverable exactly. For documents authored with embedded custom fonts
the independent reader walks each page's content: the codes of every shown string go through the font's
/ToUnicode CMap and must give the authored text; /W (or /DW) of every used CID must equal the original
font's advance scaled to 1000 units (+-1); for TrueType programs the embedded glyph the CID selects
(through /CIDToGIDMap) must have the outline of the original glyph of that character. The library's own
extraction (recorded by the Rust stage) must contain the same non-white-space characters."""
import os, re, collections
from multiprocessing import Pool
from .. import pdf
from ..pdf import Name, Ref, Stream, String
from ..font import Sfnt, FontError
from .common import args
from .docchecks import load_doc_cases
from ..recpy import Recorder

_ORIG = {}


def orig(path):
    if path not in _ORIG:
        f = Sfnt(open(path, "rb").read())
        _ORIG[path] = (f, f.cmap())
    return _ORIG[path]


def parse_tounicode(text):
    m = {}
    t = text.decode("latin1")
    hexs = lambda s: bytes.fromhex(re.sub(r"\s+", "", s))
    for blk in re.findall(r"beginbfchar(.*?)endbfchar", t, re.S):
        for a, b in re.findall(r"<([0-9A-Fa-f\s]*)>\s*<([0-9A-Fa-f\s]*)>", blk):
            m[hexs(a)] = hexs(b).decode("utf-16-be", "replace")
    for blk in re.findall(r"beginbfrange(.*?)endbfrange", t, re.S):
        for a, b, rest in re.findall(r"<([0-9A-Fa-f\s]*)>\s*<([0-9A-Fa-f\s]*)>\s*(<[0-9A-Fa-f\s]*>|\[[^\]]*\])", blk):
            lo, hi = hexs(a), hexs(b)
            n = len(lo)
            if rest.startswith("["):
                for k, d in enumerate(re.findall(r"<([0-9A-Fa-f\s]*)>", rest)):
                    m[(int.from_bytes(lo, "big") + k).to_bytes(n, "big")] = hexs(d).decode("utf-16-be", "replace")
            else:
                d = hexs(rest[1:-1])
                for k in range(int.from_bytes(hi, "big") - int.from_bytes(lo, "big") + 1):
                    v = (int.from_bytes(d, "big") + k).to_bytes(len(d), "big")
                    m[(int.from_bytes(lo, "big") + k).to_bytes(n, "big")] = v.decode("utf-16-be", "replace")
    return m


def widths(doc, cidfont):
    dw = doc.resolve(cidfont.get(b"DW"))
    dw = dw if isinstance(dw, (int, float)) else 1000
    w = doc.resolve(cidfont.get(b"W")) or []
    res, i = {}, 0
    while i < len(w):
        a = w[i]
        b = doc.resolve(w[i + 1]) if i + 1 < len(w) else None
        if isinstance(b, list):
            for k, v in enumerate(b):
                res[a + k] = v
            i += 2
        else:
            v = w[i + 2]
            for cid in range(a, b + 1):
                res[cid] = v
            i += 3
    return res, dw


def nows(s):
    return "".join(ch for ch in s if not ch.isspace())


def analyse(job):
    d, c = job
    out, stats = [], {"shows_decoded": 0, "cids_checked": 0, "outlines_compared": 0, "cff_programs_not_compared": 0}
    wit = {k: c.get(k) for k in ("case", "seed", "file", "config", "fonts")}
    if "rejected" in c or "write_error" in c:
        kind = "font_rejected" if "rejected" in c else "write_failed"
        out.append(("C13|%s|%s" % (kind, c.get("font", c.get("fonts", [{}])[0].get("font") if c.get("fonts") else "?")), (c.get("rejected") or c.get("write_error"))[:300], wit))
        return out, stats
    if c.get("authoring_errors"):
        return [("inconc", "authoring error: %s" % c["authoring_errors"][0][:200], None)], stats
    data = open(os.path.join(d, c["file"]), "rb").read()
    fkeys = {f["res"]: f for f in c["fonts"]}
    try:
        doc = pdf.Document(data, strict=True)
        pages = doc.pages()
    except Exception as e:
        out.append(("C13|file_unreadable_for_independent_reader", repr(e)[:300], wit))
        return out, stats
    font_cache = {}

    def font_info(ref_or_dict):
        key = ref_or_dict.num if isinstance(ref_or_dict, Ref) else id(ref_or_dict)
        if key in font_cache:
            return font_cache[key]
        fd = doc.resolve(ref_or_dict)
        info = {"dict": fd}
        tu = doc.resolve(fd.get(b"ToUnicode"))
        info["tounicode"] = parse_tounicode(pdf.decode_stream(tu, doc.resolve)) if isinstance(tu, Stream) else None
        desc = doc.resolve(fd.get(b"DescendantFonts"))
        cf = doc.resolve(desc[0]) if isinstance(desc, list) and desc else None
        info["cidfont"] = cf
        if isinstance(cf, dict):
            info["w"], info["dw"] = widths(doc, cf)
            g = doc.resolve(cf.get(b"CIDToGIDMap"))
            info["cid2gid"] = pdf.decode_stream(g, doc.resolve) if isinstance(g, Stream) else None
            fdesc = doc.resolve(cf.get(b"FontDescriptor")) or {}
            ff2 = doc.resolve(fdesc.get(b"FontFile2"))
            info["program"] = None
            if isinstance(ff2, Stream):
                try:
                    info["program"] = Sfnt(pdf.decode_stream(ff2, doc.resolve))
                except FontError as e:
                    info["program_error"] = str(e)
            info["has_ff3"] = fdesc.get(b"FontFile3") is not None
        font_cache[key] = info
        return info

    for pi, (_, page, inh) in enumerate(pages):
        if pi >= len(c["pages"]):
            break
        res = doc.resolve(page.get(b"Resources", inh.get(b"Resources"))) or {}
        fonts = doc.resolve(res.get(b"Font")) or {}
        ops = pdf.content_ops(doc.page_content(page))
        cur = None
        decoded = []
        for op, operands in ops:
            if op == b"Tf" and operands and isinstance(operands[0], Name):
                cur = operands[0].v
            strings = []
            if op in (b"Tj", b"'", b'"') and operands:
                strings = [operands[-1]]
            elif op == b"TJ" and operands and isinstance(operands[0], list):
                strings = [x for x in operands[0] if isinstance(x, String)]
            for s in strings:
                if cur is None or cur not in fonts:
                    out.append(("C13|show_without_resolvable_font", "page %d font %r" % (pi, cur), wit)); return out, stats
                decoded.append((cur.decode("latin1"), s.v, font_info(fonts[cur])))
        authored = c["pages"][pi]
        got_text = ""
        for res_name, raw, info in decoded:
            tu = info["tounicode"]
            if tu is None:
                out.append(("C13|embedded_font_without_tounicode", "page %d font %s" % (pi, res_name), wit)); return out, stats
            stats["shows_decoded"] += 1
            for k in range(0, len(raw), 2):
                code = raw[k:k + 2]
                u = tu.get(code)
                if u is None:
                    fk = fkeys.get(res_name, {}).get("font", "?")
                    out.append(("C13|code_without_tounicode_entry|%s" % fk, "page %d: code %s of font %s" % (pi, code.hex(), res_name), wit)); return out, stats
                got_text += u
        want_text = "".join(s["text"] for s in authored)
        if nows(got_text) != nows(want_text):
            fk = authored[0]["font"] if authored else "?"
            out.append(("C13|text_recovered_through_tounicode_differs|%s" % fk, "page %d: authored %r, recovered %r" % (pi, want_text[:80], got_text[:80]), wit)); return out, stats
        # library's own extraction: same characters (white space aside), any order of lines
        lt = c.get("lib_text")
        if isinstance(lt, list) and pi < len(lt):
            if collections.Counter(nows(lt[pi])) != collections.Counter(nows(want_text)):
                fk = authored[0]["font"] if authored else "?"
                out.append(("C13|library_extraction_differs|%s" % fk, "page %d: authored %r, library extracted %r" % (pi, want_text[:80], lt[pi][:80]), wit)); return out, stats
        elif isinstance(lt, dict):
            out.append(("C13|library_extraction_fails", str(lt)[:300], wit)); return out, stats
        # widths and outlines per used character
        pos = 0
        chars = [ch for s in authored for ch in s["text"]]
        codes = [(res_name, raw[k:k + 2], info) for res_name, raw, info in decoded for k in range(0, len(raw), 2)]
        if len(chars) != len(codes):
            continue  # 1:n mappings: the per-character pairing below does not apply
        seen = set()
        for ch, (res_name, code, info) in zip(chars, codes):
            fk = fkeys.get(res_name)
            if fk is None or (res_name, code) in seen:
                continue
            seen.add((res_name, code))
            of, ocm = orig(fk["path"])
            og = ocm.get(ord(ch))
            if og is None:
                continue
            cid = int.from_bytes(code, "big")
            stats["cids_checked"] += 1
            w = info["w"].get(cid, info["dw"])
            want_w = of.advance(og) * 1000.0 / of.units_per_em
            if abs(w - want_w) > 1.0:
                out.append(("C13|width_differs_from_font_advance|%s" % fk["font"], "U+%04X cid %d: /W %r, font advance %d/%d = %.2f" % (ord(ch), cid, w, of.advance(og), of.units_per_em, want_w), wit)); return out, stats
            prog = info.get("program")
            if prog is None:
                if info.get("program_error"):
                    out.append(("C13|embedded_program_is_not_an_sfnt|%s" % fk["font"], info["program_error"], wit)); return out, stats
                stats["cff_programs_not_compared"] += 1
                continue
            c2g = info["cid2gid"]
            gid = cid if c2g is None else (int.from_bytes(c2g[2 * cid:2 * cid + 2], "big") if 2 * cid + 2 <= len(c2g) else None)
            if gid is None:
                out.append(("C13|cid_beyond_cidtogidmap|%s" % fk["font"], "cid %d, map has %d bytes" % (cid, len(c2g)), wit)); return out, stats
            try:
                a, b = of.outline(og), prog.outline(gid)
            except Exception as e:
                out.append(("C13|embedded_glyph_unreadable|%s" % fk["font"], "U+%04X cid %d gid %d: %r" % (ord(ch), cid, gid, e), wit)); return out, stats
            stats["outlines_compared"] += 1
            if a != b:
                out.append(("C13|embedded_glyph_outline_differs|%s" % fk["font"], "U+%04X: cid %d -> embedded glyph %d is not the original glyph %d" % (ord(ch), cid, gid, og), wit)); return out, stats
    return out, stats


def main():
    out, seed, tier, kv = args()
    rec = Recorder("py")
    d = os.path.join(out, "cases")
    cases = load_doc_cases(d)
    with Pool(min(16, os.cpu_count() or 4)) as pool:
        for c, (viol, stats) in zip(cases, pool.imap(analyse, [(d, c) for c in cases], chunksize=2)):
            rec.case(c["id"], True)
            for k, v in stats.items():
                rec.count(k, v)
            for f in c.get("fonts", []):
                rec.set_add("fonts", f["font"])
            for sig, detail, wit in viol:
                if sig == "inconc":
                    rec.inconc(detail)
                else:
                    rec.violation(sig, detail, wit)
    rec.write(out)


if __name__ == "__main__":
    main()
