//! Small deterministic PRNG (splitmix64 seeding + xoshiro256**). All harness
//! randomness derives from VERIF_SEED through this.
#[derive(Clone, Debug)]
pub struct Rng {
    s: [u64; 4],
}

fn splitmix(x: &mut u64) -> u64 {
    *x = x.wrapping_add(0x9E3779B97F4A7C15);
    let mut z = *x;
    z = (z ^ (z >> 30)).wrapping_mul(0xBF58476D1CE4E5B9);
    z = (z ^ (z >> 27)).wrapping_mul(0x94D049BB133111EB);
    z ^ (z >> 31)
}

impl Rng {
    pub fn new(seed: u64) -> Self {
        let mut x = seed ^ 0xD6E8FEB86659FD93;
        let s = [
            splitmix(&mut x),
            splitmix(&mut x),
            splitmix(&mut x),
            splitmix(&mut x),
        ];
        Rng { s }
    }
    /// Derive an independent stream for (seed, a, b).
    pub fn derive(seed: u64, a: u64, b: u64) -> Self {
        let mut x = seed;
        let k1 = splitmix(&mut x) ^ a.wrapping_mul(0x9E3779B97F4A7C15);
        let mut y = k1;
        let k2 = splitmix(&mut y) ^ b.wrapping_mul(0xC2B2AE3D27D4EB4F);
        Rng::new(k2)
    }
    pub fn next_u64(&mut self) -> u64 {
        let r = self.s[1].wrapping_mul(5).rotate_left(7).wrapping_mul(9);
        let t = self.s[1] << 17;
        self.s[2] ^= self.s[0];
        self.s[3] ^= self.s[1];
        self.s[1] ^= self.s[2];
        self.s[0] ^= self.s[3];
        self.s[2] ^= t;
        self.s[3] = self.s[3].rotate_left(45);
        r
    }
    pub fn next_u32(&mut self) -> u32 {
        (self.next_u64() >> 32) as u32
    }
    /// Uniform in [0, n) (n > 0).
    pub fn below(&mut self, n: u64) -> u64 {
        if n == 0 {
            return 0;
        }
        self.next_u64() % n
    }
    pub fn usize_below(&mut self, n: usize) -> usize {
        self.below(n as u64) as usize
    }
    /// Uniform in [lo, hi] inclusive.
    pub fn range(&mut self, lo: i64, hi: i64) -> i64 {
        if hi <= lo {
            return lo;
        }
        lo + self.below((hi - lo) as u64 + 1) as i64
    }
    pub fn urange(&mut self, lo: usize, hi: usize) -> usize {
        self.range(lo as i64, hi as i64) as usize
    }
    pub fn chance(&mut self, num: u64, den: u64) -> bool {
        self.below(den) < num
    }
    pub fn bool(&mut self) -> bool {
        self.next_u64() & 1 == 1
    }
    pub fn f64(&mut self) -> f64 {
        (self.next_u64() >> 11) as f64 / (1u64 << 53) as f64
    }
    pub fn pick<'a, T>(&mut self, xs: &'a [T]) -> &'a T {
        &xs[self.usize_below(xs.len())]
    }
    pub fn bytes(&mut self, n: usize) -> Vec<u8> {
        let mut v = Vec::with_capacity(n);
        while v.len() < n {
            let x = self.next_u64().to_le_bytes();
            let take = (n - v.len()).min(8);
            v.extend_from_slice(&x[..take]);
        }
        v
    }
    pub fn shuffle<T>(&mut self, xs: &mut [T]) {
        for i in (1..xs.len()).rev() {
            let j = self.usize_below(i + 1);
            xs.swap(i, j);
        }
    }
}

/// FNV-1a 64-bit, used for case-descriptor hashing (distinct counting).
pub fn fnv64(data: &[u8]) -> u64 {
    let mut h: u64 = 0xcbf29ce484222325;
    for b in data {
        h ^= *b as u64;
        h = h.wrapping_mul(0x100000001b3);
    }
    // final avalanche
    let mut x = h;
    splitmix(&mut x)
}
