//! C14 — RAG chunking is a faithful, budget-respecting partition.
//! Generated element sequences × configurations × token counters are fed to
//! `HybridChunker::chunk` and `chunk_with_graph`; the monitor reads the returned
//! chunks (elements / text / heading_context / is_oversized / token_estimate) and
//! decides conservation, order, budget, heading and determinism. Every element
//! carries its index in `metadata.page`, so membership, multiplicity and order
//! are read off the output directly.
use crate::{Ctx, Recorder, Rng};
use oxidize_pdf::pipeline::{
    ContextFormat, ContextMode, Element, ElementData, ElementGraph, ElementMetadata, HybridChunk, HybridChunkConfig,
    HybridChunker, ImageElementData, KeyValueElementData, MergePolicy, TableElementData, TokenCounter, WordProxyCounter,
};
use serde_json::{json, Value};
use std::sync::Arc;

/// ceil(chars/4): not additive (honest about it)
struct Quarter;
impl TokenCounter for Quarter {
    fn count(&self, t: &str) -> usize {
        (t.chars().count() + 3) / 4
    }
    fn name(&self) -> &'static str {
        "quarter"
    }
}
/// words + one token per newline: the join separator costs (honest: not additive)
struct PairCounter;
impl TokenCounter for PairCounter {
    fn count(&self, t: &str) -> usize {
        t.split_whitespace().count() + t.matches('\n').count()
    }
    fn name(&self) -> &'static str {
        "pair"
    }
}
/// sub-word like: every word costs ceil(len/3), and a word directly after a newline one more
struct SubWord;
impl TokenCounter for SubWord {
    fn count(&self, t: &str) -> usize {
        t.split_whitespace().map(|w| (w.chars().count() + 2) / 3).sum::<usize>() + t.matches("\n").count() / 2
    }
    fn name(&self) -> &'static str {
        "subword"
    }
}
/// claims additivity although it is not additive: excluded from the budget clause
struct Liar;
impl TokenCounter for Liar {
    fn count(&self, t: &str) -> usize {
        (t.chars().count() + 3) / 4
    }
    fn name(&self) -> &'static str {
        "liar"
    }
    fn is_additive_over_whitespace_join(&self) -> bool {
        true
    }
}

fn counter(k: usize) -> (Arc<dyn TokenCounter>, &'static str, bool) {
    match k {
        0 => (Arc::new(WordProxyCounter), "word", true),
        1 => (Arc::new(Quarter), "quarter", true),
        2 => (Arc::new(PairCounter), "pair", true),
        3 => (Arc::new(SubWord), "subword", true),
        _ => (Arc::new(Liar), "liar", false),
    }
}

fn kind_name(e: &Element) -> &'static str {
    match e {
        Element::Title(_) => "Title",
        Element::Paragraph(_) => "Paragraph",
        Element::Table(_) => "Table",
        Element::Header(_) => "Header",
        Element::Footer(_) => "Footer",
        Element::ListItem(_) => "ListItem",
        Element::Image(_) => "Image",
        Element::CodeBlock(_) => "CodeBlock",
        Element::KeyValue(_) => "KeyValue",
    }
}

fn words(r: &mut Rng, idx: usize, n: usize, delims: bool) -> String {
    let mut s = String::new();
    for j in 0..n {
        if j > 0 {
            if delims && r.chance(1, 7) {
                s.push_str(*r.pick(&[". ", "! ", "? ", "\n", ".  ", ". \n", " \n "]));
            } else {
                s.push(' ');
            }
        }
        s.push_str(&format!("e{idx}w{j}"));
        if r.chance(1, 30) {
            s.push_str("xxxxxxxxxxxxxxxx"); // a long word
        }
    }
    if delims && n > 0 && r.chance(1, 3) {
        s.push('.');
    }
    s
}

fn text_for(r: &mut Rng, idx: usize) -> String {
    match r.below(20) {
        0 => String::new(),
        1 => " ".into(),
        2 => ". . . ! ? .".into(),
        3 => {
            let n = r.urange(100, 400);
            words(r, idx, n, false) // one giant sentence
        }
        4 | 5 => {
            let n = r.urange(40, 200);
            words(r, idx, n, true)
        }
        _ => {
            let n = r.urange(1, 25);
            words(r, idx, n, true)
        }
    }
}

struct Case {
    elements: Vec<Element>,
    /// positional section title (text of nearest preceding Title, a Title governs itself)
    positional: Vec<Option<String>>,
    consistent: bool,
    shape: Vec<&'static str>,
}

fn gen_case(r: &mut Rng) -> Case {
    let n = match r.below(10) {
        0 => r.urange(0, 2),
        1 | 2 => r.urange(20, 60),
        _ => r.urange(2, 20),
    };
    let mut elements = Vec::new();
    let mut positional = Vec::new();
    let mut cur: Option<String> = None;
    let mut titles_seen: Vec<String> = Vec::new();
    let mut consistent = true;
    let mut shape = Vec::new();
    let hostile_headings = r.chance(1, 2); // half of the cases keep metadata as the partitioner would set it
    let dup_titles = r.chance(1, 4);
    for i in 0..n {
        let k = if i == 0 && r.chance(1, 2) { 1 } else { r.below(14) };
        let mut md = ElementMetadata { page: i as u32, ..Default::default() };
        let is_title = k == 0 || k == 9;
        if is_title {
            let t = if dup_titles && !titles_seen.is_empty() && r.chance(1, 2) { r.pick(&titles_seen).clone() } else { format!("T{i} heading{}", r.below(3)) };
            titles_seen.push(t.clone());
            cur = Some(t.clone());
            md.parent_heading = if hostile_headings && r.chance(1, 4) { None } else { Some(t.clone()) };
            md.heading_path = vec![t.clone()];
            positional.push(cur.clone());
            elements.push(Element::Title(ElementData { text: t, metadata: md }));
            shape.push("title");
            continue;
        }
        // parent_heading: correct / absent / stale (an earlier title) / unknown text
        md.parent_heading = cur.clone();
        if hostile_headings {
            match r.below(8) {
                0 => {
                    md.parent_heading = None;
                    if cur.is_some() {
                        consistent = false;
                        shape.push("absent_heading_after_title");
                    }
                }
                1 if !titles_seen.is_empty() => {
                    let t = r.pick(&titles_seen).clone();
                    if Some(&t) != cur.as_ref() {
                        consistent = false;
                        shape.push("stale_heading");
                    }
                    md.parent_heading = Some(t);
                }
                2 => {
                    md.parent_heading = Some(format!("unknown{i}"));
                    consistent = false;
                    shape.push("unknown_heading");
                }
                _ => {}
            }
        }
        positional.push(cur.clone());
        let e = match k {
            1 | 2 | 3 | 10 | 11 => Element::Paragraph(ElementData { text: text_for(r, i), metadata: md }),
            4 | 12 => Element::ListItem(ElementData { text: text_for(r, i), metadata: md }),
            5 => {
                let rows = r.urange(0, 5);
                let cols = r.urange(1, 4);
                let big = r.chance(1, 5);
                let cells: Vec<Vec<String>> = (0..rows).map(|a| (0..cols).map(|b| if big { words(r, i, 30, false) + &format!("r{a}c{b}") } else { format!("e{i}r{a}c{b}") }).collect()).collect();
                Element::Table(TableElementData::new(cells, md))
            }
            6 => Element::Image(ImageElementData { alt_text: if r.bool() { Some(format!("e{i}alt image")) } else { None }, metadata: md }),
            7 => Element::CodeBlock(ElementData { text: text_for(r, i), metadata: md }),
            8 | 13 => {
                let nv = r.urange(0, 12);
                Element::KeyValue(KeyValueElementData { key: format!("e{i}key"), value: words(r, i, nv, false), metadata: md })
            }
            _ => {
                if r.bool() {
                    Element::Header(ElementData { text: format!("e{i}header"), metadata: md })
                } else {
                    Element::Footer(ElementData { text: format!("e{i}footer {}", i), metadata: md })
                }
            }
        };
        elements.push(e);
    }
    if dup_titles {
        shape.push("duplicate_titles");
    }
    Case { elements, positional, consistent, shape }
}

fn nows(s: &str) -> String {
    s.chars().filter(|c| !c.is_whitespace()).collect()
}

fn dump_chunks(chunks: &[HybridChunk]) -> Value {
    json!(chunks
        .iter()
        .map(|c| json!({"elements": c.elements().iter().map(|e| json!([kind_name(e), e.metadata().page, e.display_text().chars().take(60).collect::<String>()])).collect::<Vec<_>>(),
            "heading": c.heading_context, "oversized": c.is_oversized(), "token_estimate": c.token_estimate()}))
        .collect::<Vec<_>>())
}

fn dump_elements(els: &[Element]) -> Value {
    json!(els
        .iter()
        .map(|e| json!({"kind": kind_name(e), "idx": e.metadata().page, "parent_heading": e.metadata().parent_heading, "text": e.display_text()}))
        .collect::<Vec<_>>())
}

fn fingerprint(chunks: &[HybridChunk]) -> String {
    let mut s = String::new();
    for c in chunks {
        s.push_str(&format!("{:?}|{}|{}|{}#", c.heading_context, c.is_oversized(), c.token_estimate(), c.full_text()));
        for e in c.elements() {
            s.push_str(&format!("{:?};", e));
        }
    }
    s
}

pub fn run(ctx: &Ctx, rec: &mut Recorder) -> Result<(), String> {
    let ncases = ctx.qt(40_000u64, 3_000_000u64);
    let max_tokens_pool = [0usize, 1, 2, 7, 64, 512];
    for c in 0..ncases {
        if !ctx.mine(c) {
            continue;
        }
        let mut r = Rng::derive(ctx.seed, 14, c);
        let case = gen_case(&mut r);
        let cfg = HybridChunkConfig {
            max_tokens: *r.pick(&max_tokens_pool),
            overlap_tokens: *r.pick(&[0usize, 5, 50]),
            merge_adjacent: !r.chance(1, 4),
            propagate_headings: !r.chance(1, 4),
            merge_policy: if r.bool() { MergePolicy::SameTypeOnly } else { MergePolicy::AnyInlineContent },
            context_mode: *r.pick(&[ContextMode::None, ContextMode::Heading, ContextMode::Contextual(ContextFormat::Labeled), ContextMode::Contextual(ContextFormat::Prose)]),
        };
        let (cnt, cname, honest) = counter(r.usize_below(5));
        for entry in ["chunk", "graph"] {
            rec.evaluations += 1;
            let chunker = HybridChunker::new(cfg.clone()).with_token_counter(cnt.clone());
            let run_once = |ch: &HybridChunker| -> Vec<HybridChunk> {
                if entry == "chunk" {
                    ch.chunk(&case.elements)
                } else {
                    let g = ElementGraph::build(&case.elements);
                    ch.chunk_with_graph(&case.elements, &g)
                }
            };
            let chunks = match crate::mon::guarded(|| run_once(&chunker)) {
                Ok(v) => v,
                Err(p) => {
                    rec.violation(format!("C14|{entry}|panic|{}", p.site()), p.message.clone(), json!({"case": c, "seed": ctx.seed, "elements": dump_elements(&case.elements), "config": format!("{cfg:?}"), "counter": cname}));
                    continue;
                }
            };
            let replay = |what: Value| json!({"case": c, "seed": ctx.seed, "entry": entry, "counter": cname, "config": format!("{cfg:?}"), "elements": dump_elements(&case.elements), "chunks": dump_chunks(&chunks), "what": what});
            let n = case.elements.len();
            // ---- conservation and order
            let flat: Vec<(usize, &Element)> = chunks.iter().flat_map(|ch| ch.elements().iter().map(|e| (e.metadata().page as usize, e))).collect();
            let mut per: Vec<Vec<&Element>> = vec![Vec::new(); n];
            let mut order_ok = true;
            let mut last = 0usize;
            for (i, e) in &flat {
                if *i >= n {
                    rec.violation(format!("C14|{entry}|foreign_element"), format!("chunk element with index {i} that was never supplied"), replay(json!({"idx": i})));
                    continue;
                }
                if *i < last {
                    order_ok = false;
                }
                last = *i;
                per[*i].push(e);
            }
            let first_title = case.elements.iter().position(|e| matches!(e, Element::Title(_)));
            if !order_ok {
                rec.violation(format!("C14|{entry}|order|elements_out_of_document_order"), "the concatenation of chunk elements is not in input order", replay(json!(flat.iter().map(|x| x.0).collect::<Vec<_>>())));
            }
            for i in 0..n {
                let src = &case.elements[i];
                if per[i].is_empty() {
                    // classify by what the section-graph needs to see the element
                    let cls = if entry == "graph" && first_title.map(|t| i > t).unwrap_or(false) {
                        match &src.metadata().parent_heading {
                            None => "after_first_title_without_parent_heading",
                            Some(h) if !case.elements[..i].iter().any(|e| matches!(e, Element::Title(_)) && e.text() == h) => "after_first_title_parent_heading_matches_no_earlier_title",
                            _ => "other",
                        }
                    } else {
                        "other"
                    };
                    rec.violation(format!("C14|{entry}|missing|{cls}"), format!("element {i} ({}) is in no chunk", kind_name(src)), replay(json!({"idx": i})));
                    continue;
                }
                if per[i].len() == 1 {
                    let o = per[i][0];
                    if nows(&o.display_text()) != nows(&src.display_text()) {
                        rec.violation(format!("C14|{entry}|content_changed"), format!("element {i}: text differs"), replay(json!({"idx": i, "got": o.display_text()})));
                    } else if kind_name(o) != kind_name(src) && !(matches!(src, Element::ListItem(_)) && matches!(o, Element::Paragraph(_))) {
                        rec.violation(format!("C14|{entry}|kind_changed"), format!("element {i}: {} became {}", kind_name(src), kind_name(o)), replay(json!({"idx": i})));
                    }
                } else {
                    let cat: String = per[i].iter().map(|e| nows(&e.display_text())).collect();
                    let splittable = matches!(src, Element::Paragraph(_) | Element::ListItem(_));
                    if cat == nows(&src.display_text()) && splittable {
                        rec.count("split_elements");
                    } else if cat == nows(&src.display_text()).repeat(per[i].len()) {
                        rec.violation(format!("C14|{entry}|duplicated"), format!("element {i} appears {} times", per[i].len()), replay(json!({"idx": i})));
                    } else {
                        rec.violation(format!("C14|{entry}|fragments_do_not_concatenate"), format!("element {i}: {} fragments do not concatenate back to the element", per[i].len()), replay(json!({"idx": i})));
                    }
                }
            }
            // ---- budget and estimate
            for (ci, ch) in chunks.iter().enumerate() {
                let text = ch.text();
                let cost = cnt.count(&text);
                if ch.token_estimate() != cost {
                    rec.violation(format!("C14|{entry}|token_estimate_differs_from_counter"), format!("chunk {ci}: token_estimate {} but counter says {cost}", ch.token_estimate()), replay(json!({"chunk": ci})));
                }
                if honest && !ch.is_oversized() && cost > cfg.max_tokens {
                    let cls = if entry == "graph" && ch.elements().len() > 1 && matches!(ch.elements()[0], Element::Title(_)) && cname != "word" { "whole_section_approved_by_sum_of_parts" } else { "other" };
                    rec.violation(format!("C14|{entry}|budget|{cls}"), format!("chunk {ci} not marked oversized: {cost} tokens > max {} under counter {cname}", cfg.max_tokens), replay(json!({"chunk": ci})));
                }
                if ch.is_oversized() {
                    rec.count("oversized_chunks");
                }
                // ---- heading
                if let Some(first) = ch.elements().first() {
                    let i = first.metadata().page as usize;
                    if i < n {
                        let meta = case.elements[i].metadata().parent_heading.clone();
                        let pos = case.positional[i].clone();
                        let got = ch.heading_context.clone();
                        if entry == "chunk" && !cfg.propagate_headings {
                            if got.is_some() {
                                rec.violation(format!("C14|{entry}|heading|present_although_propagation_off"), format!("chunk {ci}: {got:?}"), replay(json!({"chunk": ci})));
                            }
                        } else if cfg.propagate_headings && got != meta && got != pos {
                            let cls = if case.consistent { "consistent_input" } else { "inconsistent_input" };
                            rec.violation(format!("C14|{entry}|heading|wrong_section|{cls}"), format!("chunk {ci}: heading {got:?}, first element {i} has parent_heading {meta:?}, governing title {pos:?}"), replay(json!({"chunk": ci})));
                        }
                    }
                }
            }
            // ---- determinism
            let chunker2 = HybridChunker::new(cfg.clone()).with_token_counter(cnt.clone());
            if let Ok(again) = crate::mon::guarded(|| run_once(&chunker2)) {
                if fingerprint(&again) != fingerprint(&chunks) {
                    rec.violation(format!("C14|{entry}|nondeterministic"), "two runs differ", replay(json!(null)));
                }
            }
            rec.count_n("chunks_observed", chunks.len() as u64);
            rec.count_n("elements_observed", flat.len() as u64);
            rec.set_add("counter_x_entry", format!("{cname}|{entry}"));
            rec.set_add("max_tokens", cfg.max_tokens.to_string());
            for s in &case.shape {
                rec.set_add("input_shapes", s.to_string());
            }
            let desc = format!("{c}|{entry}");
            rec.case(desc.as_bytes(), n >= 2 && chunks.len() >= 1);
        }
        if rec.samples.len() < 2 {
            rec.sample(json!({"case": c, "elements": case.elements.len(), "consistent": case.consistent}));
        }
    }
    Ok(())
}
