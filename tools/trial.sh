#!/bin/bash
# usage: tools/trial.sh <patch> <check id> [check args]
# Runs a check against /repo HEAD + <patch> without touching /repo: the patch is applied in the scratch
# worktree /tmp/wt/trial and a scratch copy of the harness is built against it. Nothing is written under
# /verif (VERIF_TRIAL). Equivalent to: git -C /repo apply <patch>; ./check <id>; git -C /repo checkout -- .
set -u
patch=$1; id=$2; shift 2
WT=/tmp/wt/trial
head=$(git -C /repo rev-parse HEAD)
if [ ! -d $WT ]; then git -C /repo worktree add -q --detach $WT $head || exit 2; fi
git -C $WT reset -q --hard; git -C $WT clean -q -fd; git -C $WT checkout -q --detach $head
if ! git -C $WT apply "$patch" 2>/tmp/trial-apply.err; then echo "DOES NOT APPLY: $patch"; tail -2 /tmp/trial-apply.err; exit 2; fi
mkdir -p /tmp/trial
# the committed harness, not the working copy (which may be mid-edit)
rm -rf /tmp/trial/src && mkdir -p /tmp/trial/src && git -C /verif archive HEAD harness | tar -x -C /tmp/trial/src && rsync -a --delete --exclude target --exclude miri/target /tmp/trial/src/harness/ /tmp/trial/harness/
sed -i "s|/repo/oxidize-pdf-core|$WT/oxidize-pdf-core|" /tmp/trial/harness/Cargo.toml
sed -i "s|/verif/harness/target|/tmp/trial/harness/target|" /tmp/trial/harness/.cargo/config.toml
grep -q /tmp/trial/harness/target /tmp/trial/harness/.cargo/config.toml || { echo "trial harness would build into /verif"; exit 2; }
[ -f /tmp/trial/harness/miri/Cargo.toml ] && sed -i "s|/repo/oxidize-pdf-core|$WT/oxidize-pdf-core|" /tmp/trial/harness/miri/Cargo.toml
cd /verif
VERIF_TRIAL=/tmp/verif-trial VERIF_HARNESS=/tmp/trial/harness ./check "$id" "$@" 2>&1 | grep -a -E "VIOLATION|SUMMARY|INCONCL|KNOWN|error" | sed 's/replay=[^ ]* //' | cut -c1-360 | head -8
git -C $WT reset -q --hard
