//! Miri target for C29: concurrent ObjectCache histories under Miri's seeded
//! scheduler (data-race + UB detection), judged by the same linearizability
//! search. One process = one Miri seed (`-Zmiri-many-seeds` varies it); the
//! plan seed comes from argv so runs are replayable.
#[path = "../../../src/wl/c29_core.rs"]
#[allow(dead_code)]
mod core;
use core::*;

fn main() {
    let args: Vec<String> = std::env::args().collect();
    let plan_seed: u64 = args.get(1).and_then(|s| s.parse().ok()).unwrap_or(1);
    let nplans: u64 = args.get(2).and_then(|s| s.parse().ok()).unwrap_or(3);
    let mut lcg = Lcg(plan_seed | 1);
    let mut overlapped = 0;
    for i in 0..nplans {
        let plan = gen_plan(&mut lcg, 3);
        let (h, max_size) = run_plan(&plan, true);
        if has_overlap(&h) {
            overlapped += 1;
        }
        if max_size > plan.cap {
            println!("MIRI-VIOLATION C29|concurrent|size_exceeds_capacity plan_seed={plan_seed} plan={i}");
            std::process::exit(1);
        }
        let (ok, _) = linearizable(&h, plan.cap);
        if !ok {
            println!("MIRI-VIOLATION C29|concurrent|history_not_linearizable plan_seed={plan_seed} plan={i} history={:?}", h);
            std::process::exit(1);
        }
        println!("MIRI-HISTORY sig={} overlap={}", interleaving_sig(&h), has_overlap(&h));
    }
    println!("MIRI-OK plans={nplans} overlapped={overlapped}");
}
