//! C16 — page operations preserve page content and geometry.
//! Source files are generated directly as PDF syntax (gen::rawpdf): unique word per
//! page, boxes with arbitrary origins, inherited attributes, /Rotate values, shared
//! fonts, image and form XObjects. The operations are driven through the public
//! file API; pyref/checks/c16.py reads sources and outputs with the independent
//! reader and compares page sequence, content tokens, boxes, rotation and resources.
use crate::gen::rawpdf::RawPdf;
use crate::{Ctx, Recorder, Rng};
use oxidize_pdf::operations::{
    extract_page_range_to_file, extract_pages_to_file, merge_pdfs, move_pdf_page, reorder_pdf_pages, reverse_pdf_pages, rotate_pdf_pages, split_pdf, swap_pdf_pages, MergeInput, MergeOptions, PageRange,
    RotateOptions, RotationAngle, SplitMode, SplitOptions,
};
use serde_json::{json, Value};
use std::io::Write;
use std::path::{Path, PathBuf};

fn gen_source(r: &mut Rng, tag: &str) -> (Vec<u8>, usize) {
    let mut pdf = RawPdf::new();
    let catalog = pdf.reserve();
    let root = pdf.reserve();
    let f1 = pdf.add("<< /Type /Font /Subtype /Type1 /BaseFont /Helvetica /Encoding /WinAnsiEncoding >>");
    let f2 = pdf.add("<< /Type /Font /Subtype /Type1 /BaseFont /Times-Roman >>");
    let im = pdf.add_stream("/Type /XObject /Subtype /Image /Width 2 /Height 2 /ColorSpace /DeviceGray /BitsPerComponent 8", &[0, 85, 170, 255]);
    let fm = pdf.add_stream(&format!("/Type /XObject /Subtype /Form /BBox [0 0 50 50] /Resources << /Font << /F1 {f1} 0 R >> >>"), b"0.5 g 0 0 50 50 re f BT /F1 8 Tf 2 2 Td (form) Tj ET");
    let n = match r.below(6) {
        0 => 1,
        1 => 2,
        _ => r.urange(3, 9),
    };
    let two_level = n >= 3 && r.bool();
    let inherit_box = r.chance(1, 3);
    let inherit_res = r.chance(1, 3);
    let inherit_rot = r.chance(1, 5);
    let mid = if two_level { Some(pdf.reserve()) } else { None };
    let res = format!("<< /Font << /F1 {f1} 0 R /F2 {f2} 0 R >> /XObject << /Im1 {im} 0 R /Fm1 {fm} 0 R >> >>");
    let boxes = ["[0 0 612 792]", "[0 0 595 842]", "[100 200 400 600]", "[-50 -50 250 350]", "[10.5 20.25 300.5 420.75]", "[0 0 200 200]"];
    let mut kids_top: Vec<u32> = Vec::new();
    let mut kids_mid: Vec<u32> = Vec::new();
    for k in 0..n {
        let word = format!("{tag}P{k}W{}", r.below(100000));
        let mut content = format!("q\n0.9 0.9 0.9 rg\n20 20 100 50 re\nf\nQ\nBT\n/F{} 12 Tf\n30 100 Td\n({word}) Tj\nET\n", 1 + r.below(2));
        if r.chance(1, 3) {
            content.push_str("q 40 0 0 40 60 60 cm /Im1 Do Q\n");
        }
        if r.chance(1, 4) {
            content.push_str("q 1 0 0 1 5 5 cm /Fm1 Do Q\n");
        }
        let in_mid = two_level && k % 2 == 1;
        let parent = if in_mid { mid.unwrap() } else { root };
        let mut d = format!("<< /Type /Page /Parent {parent} 0 R");
        if !(inherit_box && in_mid) || r.chance(1, 3) {
            d.push_str(&format!(" /MediaBox {}", r.pick(&boxes)));
        } else if !inherit_box {
            d.push_str(" /MediaBox [0 0 612 792]");
        }
        if r.chance(1, 4) {
            d.push_str(&format!(" /CropBox {}", r.pick(&["[10 10 190 190]", "[110 210 390 590]", "[0 0 100 100]"])));
        }
        if !(inherit_rot && in_mid) && r.chance(1, 2) {
            d.push_str(&format!(" /Rotate {}", r.pick(&[0, 90, 180, 270, 90, 270, -90, 450])));
        }
        if !(inherit_res && in_mid) {
            d.push_str(&format!(" /Resources {res}"));
        }
        let c = if r.chance(1, 4) {
            let cut = content.find("BT\n").unwrap_or(0);
            // the boundary between two content streams acts as white space (ISO 32000-1 7.8.2): half of the
            // time the first stream ends right after its last operator, without a trailing end-of-line
            let first = if r.bool() { content[..cut].trim_end() } else { &content[..cut] };
            let a = pdf.add_stream("", first.as_bytes());
            let b = pdf.add_stream("", content[cut..].as_bytes());
            format!("[{a} 0 R {b} 0 R]")
        } else {
            format!("{} 0 R", pdf.add_stream("", content.as_bytes()))
        };
        d.push_str(&format!(" /Contents {c} >>"));
        let p = pdf.add(d);
        if in_mid { kids_mid.push(p) } else { kids_top.push(p) }
    }
    // document order: top-level kids with the intermediate node in the middle
    let mut kids: Vec<String> = kids_top.iter().map(|k| format!("{k} 0 R")).collect();
    if let Some(m) = mid {
        let mut md = format!("<< /Type /Pages /Parent {root} 0 R /Kids [{}] /Count {}", kids_mid.iter().map(|k| format!("{k} 0 R")).collect::<Vec<_>>().join(" "), kids_mid.len());
        // inherited attributes are always supplied at the node when its pages rely on them
        md.push_str(&format!(" /MediaBox {}", r.pick(&boxes)));
        md.push_str(&format!(" /Resources {res}"));
        if inherit_rot {
            md.push_str(" /Rotate 90");
        }
        md.push_str(" >>");
        pdf.set(m, md.into_bytes());
        kids.insert(kids.len() / 2, format!("{m} 0 R"));
    }
    pdf.set(root, format!("<< /Type /Pages /Kids [{}] /Count {n} /MediaBox [0 0 612 792] /Resources {res} >>", kids.join(" ")).into_bytes());
    pdf.set(catalog, format!("<< /Type /Catalog /Pages {root} 0 R >>").into_bytes());
    (pdf.finish(catalog), n)
}

fn range_json(pr: &PageRange) -> Value {
    match pr {
        PageRange::All => json!("all"),
        PageRange::Single(i) => json!({"single": i}),
        PageRange::Range(a, b) => json!({"range": [a, b]}),
        PageRange::List(l) => json!({"list": l}),
    }
}

/// the selection a range denotes, or None when it is not a valid selection of an n-page document
fn range_indices(pr: &PageRange, n: usize) -> Option<Vec<usize>> {
    match pr {
        PageRange::All => Some((0..n).collect()),
        PageRange::Single(i) => (*i < n).then(|| vec![*i]),
        PageRange::Range(a, b) => (*a <= *b && *b < n).then(|| (*a..=*b).collect()),
        PageRange::List(l) => (!l.is_empty() && l.iter().all(|i| *i < n)).then(|| l.clone()),
    }
}

fn gen_range(r: &mut Rng, n: usize) -> PageRange {
    match r.below(10) {
        0 => PageRange::All,
        1 | 2 => PageRange::Single(r.usize_below(n)),
        3 | 4 => {
            let a = r.usize_below(n);
            PageRange::Range(a, a + r.usize_below(n - a))
        }
        5 | 6 => PageRange::List((0..r.urange(1, 5)).map(|_| r.usize_below(n)).collect()),
        7 => PageRange::Single(n + r.usize_below(3)),
        8 => PageRange::Range(r.usize_below(n), n + r.usize_below(2)),
        _ => {
            let mut l: Vec<usize> = (0..r.urange(1, 4)).map(|_| r.usize_below(n)).collect();
            l.push(n);
            PageRange::List(l)
        }
    }
}

pub fn run(ctx: &Ctx, rec: &mut Recorder) -> Result<(), String> {
    let dir = ctx.out.join("cases");
    std::fs::create_dir_all(&dir).map_err(|e| e.to_string())?;
    let mut f = std::io::BufWriter::new(std::fs::File::create(dir.join(format!("cases-{}.jsonl", ctx.shard))).map_err(|e| e.to_string())?);
    let ncases = ctx.qt(1_000u64, 60_000u64);
    for c in 0..ncases {
        if !ctx.mine(c) {
            continue;
        }
        let mut r = Rng::derive(ctx.seed, 16, c);
        rec.evaluations += 1;
        let (src, n) = gen_source(&mut r, "A");
        let src_name = format!("s{c}a.pdf");
        let src_path = dir.join(&src_name);
        crate::rec::write_file(&src_path, &src);
        let out = |k: &str| -> PathBuf { dir.join(format!("o{c}{k}.pdf")) };
        let rel = |p: &Path| p.file_name().map(|x| x.to_string_lossy().to_string()).unwrap_or_default();
        let all: Vec<usize> = (0..n).collect();
        // (op name, params, run -> Result<list of output files>, expectation per output file or None = must fail)
        let opk = r.below(11);
        let mut sources = vec![src_name.clone()];
        let (op, params, result, expect): (&str, Value, Result<Vec<PathBuf>, String>, Option<Vec<Vec<(usize, usize, i32)>>>) = match opk {
            0 => {
                let idx: Vec<usize> = (0..r.urange(1, 5)).map(|_| if r.chance(1, 12) { n + r.usize_below(2) } else { r.usize_below(n) }).collect();
                let o = out("x");
                let res = crate::mon::guarded(|| extract_pages_to_file(&src_path, &idx, &o).map(|_| vec![o.clone()]).map_err(|e| e.to_string()));
                let valid = idx.iter().all(|i| *i < n);
                ("extract_pages", json!({"indices": idx}), flat(res), valid.then(|| vec![idx.iter().map(|i| (0, *i, 0)).collect()]))
            }
            1 | 2 => {
                let pr = gen_range(&mut r, n);
                let o = out("r");
                let res = crate::mon::guarded(|| extract_page_range_to_file(&src_path, &pr, &o).map(|_| vec![o.clone()]).map_err(|e| e.to_string()));
                ("extract_page_range", range_json(&pr), flat(res), range_indices(&pr, n).map(|v| vec![v.iter().map(|i| (0, *i, 0)).collect()]))
            }
            3 => {
                let (mode, mj, exp): (SplitMode, Value, Option<Vec<Vec<usize>>>) = match r.below(4) {
                    0 => (SplitMode::SinglePages, json!("single_pages"), Some(all.iter().map(|i| vec![*i]).collect())),
                    1 => {
                        let k = if r.chance(1, 25) { 0 } else { r.urange(1, n + 2) };
                        (SplitMode::ChunkSize(k), json!({"chunk": k}), if k == 0 { None } else { Some(all.chunks(k).map(|c| c.to_vec()).collect()) })
                    }
                    2 => {
                        let rs: Vec<PageRange> = (0..r.urange(1, 3)).map(|_| gen_range(&mut r, n)).collect();
                        let e: Option<Vec<Vec<usize>>> = rs.iter().map(|p| range_indices(p, n)).collect();
                        (SplitMode::Ranges(rs.clone()), json!({"ranges": rs.iter().map(range_json).collect::<Vec<_>>()}), e)
                    }
                    _ => {
                        let mut pts: Vec<usize> = (0..r.urange(1, 3)).map(|_| r.urange(1, n.max(2))).collect();
                        pts.sort();
                        pts.dedup();
                        // conservation only: the outputs together are all pages once, in order
                        (SplitMode::SplitAt(pts.clone()), json!({"split_at": pts}), Some(vec![]))
                    }
                };
                let pattern = dir.join(format!("o{c}s_{{}}.pdf")).to_string_lossy().to_string();
                let opts = SplitOptions { mode, output_pattern: pattern, ..Default::default() };
                let res = crate::mon::guarded(|| split_pdf(&src_path, opts).map_err(|e| e.to_string()));
                ("split", mj, flat(res), exp.map(|v| v.into_iter().map(|f| f.into_iter().map(|i| (0, i, 0)).collect()).collect()))
            }
            4 => {
                // merge two or three sources, each optionally restricted to a range
                let k = r.urange(2, 3);
                let mut inputs = Vec::new();
                let mut pj = Vec::new();
                let mut exp: Option<Vec<(usize, usize, i32)>> = Some(Vec::new());
                for s in 0..k {
                    let (path, np) = if s == 0 {
                        (src_path.clone(), n)
                    } else {
                        let (b, nb) = gen_source(&mut r, &format!("{}", (b'A' + s as u8) as char));
                        let name = format!("s{c}{}.pdf", (b'a' + s as u8) as char);
                        crate::rec::write_file(&dir.join(&name), &b);
                        sources.push(name.clone());
                        (dir.join(name), nb)
                    };
                    if r.bool() {
                        let pr = gen_range(&mut r, np);
                        match (range_indices(&pr, np), exp.as_mut()) {
                            (Some(ix), Some(e)) => e.extend(ix.iter().map(|i| (s, *i, 0))),
                            _ => exp = None,
                        }
                        pj.push(range_json(&pr));
                        inputs.push(MergeInput::with_pages(path, pr));
                    } else {
                        if let Some(e) = exp.as_mut() {
                            e.extend((0..np).map(|i| (s, i, 0)));
                        }
                        pj.push(json!("all"));
                        inputs.push(MergeInput::new(path));
                    }
                }
                let o = out("m");
                let res = crate::mon::guarded(|| merge_pdfs(inputs, &o, MergeOptions::default()).map(|_| vec![o.clone()]).map_err(|e| e.to_string()));
                ("merge", json!({"inputs": pj}), flat(res), exp.map(|e| vec![e]))
            }
            5 => {
                let mut order = all.clone();
                r.shuffle(&mut order);
                let bad = r.chance(1, 10);
                if bad {
                    order[0] = n + 1;
                }
                let o = out("o");
                let ord = order.clone();
                let res = crate::mon::guarded(|| reorder_pdf_pages(&src_path, &o, ord).map(|_| vec![o.clone()]).map_err(|e| e.to_string()));
                ("reorder", json!({"order": order}), flat(res), (!bad).then(|| vec![order.iter().map(|i| (0, *i, 0)).collect()]))
            }
            6 => {
                let o = out("v");
                let res = crate::mon::guarded(|| reverse_pdf_pages(&src_path, &o).map(|_| vec![o.clone()]).map_err(|e| e.to_string()));
                ("reverse", json!(null), flat(res), Some(vec![all.iter().rev().map(|i| (0, *i, 0)).collect()]))
            }
            7 => {
                let (a, b) = (r.usize_below(n + 1), r.usize_below(n + 1));
                let o = out("w");
                let res = crate::mon::guarded(|| swap_pdf_pages(&src_path, &o, a, b).map(|_| vec![o.clone()]).map_err(|e| e.to_string()));
                let exp = (a < n && b < n).then(|| {
                    let mut v = all.clone();
                    v.swap(a, b);
                    vec![v.iter().map(|i| (0, *i, 0)).collect()]
                });
                ("swap", json!({"a": a, "b": b}), flat(res), exp)
            }
            8 => {
                let (a, b) = (r.usize_below(n + 1), r.usize_below(n + 1));
                let o = out("v");
                let res = crate::mon::guarded(|| move_pdf_page(&src_path, &o, a, b).map(|_| vec![o.clone()]).map_err(|e| e.to_string()));
                let exp = (a < n && b < n).then(|| {
                    let mut v = all.clone();
                    let p = v.remove(a);
                    v.insert(b, p);
                    vec![v.iter().map(|i| (0, *i, 0)).collect()]
                });
                ("move", json!({"from": a, "to": b}), flat(res), exp)
            }
            _ => {
                let pr = gen_range(&mut r, n);
                let (angle, deg) = *r.pick(&[(RotationAngle::Clockwise90, 90), (RotationAngle::Rotate180, 180), (RotationAngle::Clockwise270, 270), (RotationAngle::None, 0)]);
                let o = out("t");
                let opts = RotateOptions { pages: pr.clone(), angle, preserve_page_size: r.bool() };
                let res = crate::mon::guarded(|| rotate_pdf_pages(&src_path, &o, opts).map(|_| vec![o.clone()]).map_err(|e| e.to_string()));
                let exp = range_indices(&pr, n).map(|sel| vec![all.iter().map(|i| (0, *i, if sel.contains(i) { deg } else { 0 })).collect()]);
                ("rotate", json!({"pages": range_json(&pr), "degrees": deg}), flat(res), exp)
            }
        };
        rec.set_add("operations", op);
        let mut line = json!({"id": format!("c16-{c}"), "case": c, "seed": ctx.seed, "op": op, "params": params, "sources": sources, "n": n,
            "expect": expect.as_ref().map(|fs| fs.iter().map(|f| f.iter().map(|(s, i, d)| json!([s, i, d])).collect::<Vec<_>>()).collect::<Vec<_>>())});
        match result {
            Ok(files) => line["outputs"] = json!(files.iter().map(|p| rel(p)).collect::<Vec<_>>()),
            Err(e) => {
                if let Some(site) = e.strip_prefix("PANIC ") {
                    rec.violation(format!("C16|{op}|panic|{}", site.split(" :: ").next().unwrap_or("")), e.clone(), json!({"case": c, "seed": ctx.seed, "op": op, "params": line["params"], "source_hex": crate::rec::hex(&src)}));
                    continue;
                }
                line["error"] = json!(e);
            }
        }
        writeln!(f, "{}", line).ok();
        rec.case(format!("{c}").as_bytes(), true);
    }
    Ok(())
}

fn flat(r: Result<Result<Vec<PathBuf>, String>, crate::mon::PanicRecord>) -> Result<Vec<PathBuf>, String> {
    match r {
        Ok(x) => x,
        Err(p) => Err(format!("PANIC {} :: {}", p.site(), p.message)),
    }
}
