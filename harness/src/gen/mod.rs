pub mod enc;
pub mod docgen;
