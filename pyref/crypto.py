"""Independent implementation of the PDF standard security handler
(ISO 32000-1 §7.6, ISO 32000-2 §7.6.4): RC4, AES-CBC (OpenSSL libcrypto via
ctypes with a pure-Python FIPS-197 fallback), Algorithms 1-13, decryptor and
encryptor for whole object graphs."""
import ctypes, ctypes.util, hashlib, os, struct

PAD = bytes.fromhex("28BF4E5E4E758A4164004E56FFFA01082E2E00B6D0683E802F0CA9FE6453697A")

# ------------------------------------------------------------------- RC4

def rc4(key, data):
    S = list(range(256))
    j = 0
    kl = len(key)
    for i in range(256):
        j = (j + S[i] + key[i % kl]) & 0xFF
        S[i], S[j] = S[j], S[i]
    out = bytearray(len(data))
    i = j = 0
    for n, b in enumerate(data):
        i = (i + 1) & 0xFF
        j = (j + S[i]) & 0xFF
        S[i], S[j] = S[j], S[i]
        out[n] = b ^ S[(S[i] + S[j]) & 0xFF]
    return bytes(out)

# ------------------------------------------------------------------- AES

_lib = None


def _libcrypto():
    global _lib
    if _lib is None:
        for name in ("libcrypto.so.3", "libcrypto.so.1.1", ctypes.util.find_library("crypto")):
            if not name:
                continue
            try:
                _lib = ctypes.CDLL(name)
                break
            except OSError:
                continue
        if _lib is None:
            _lib = False
        else:
            _lib.EVP_CIPHER_CTX_new.restype = ctypes.c_void_p
            for f in ("EVP_aes_128_cbc", "EVP_aes_256_cbc", "EVP_aes_128_ecb", "EVP_aes_256_ecb"):
                getattr(_lib, f).restype = ctypes.c_void_p
    return _lib


def _evp(key, iv, data, encrypt, mode="cbc", padding=False):
    lib = _libcrypto()
    if not lib:
        return _aes_py(key, iv, data, encrypt, mode)
    ciph = getattr(lib, "EVP_aes_%d_%s" % (len(key) * 8, mode))()
    ctx = ctypes.c_void_p(lib.EVP_CIPHER_CTX_new())
    try:
        init = lib.EVP_EncryptInit_ex if encrypt else lib.EVP_DecryptInit_ex
        upd = lib.EVP_EncryptUpdate if encrypt else lib.EVP_DecryptUpdate
        fin = lib.EVP_EncryptFinal_ex if encrypt else lib.EVP_DecryptFinal_ex
        if init(ctx, ctypes.c_void_p(ciph), None, key, iv if mode == "cbc" else None) != 1:
            raise ValueError("EVP init failed")
        lib.EVP_CIPHER_CTX_set_padding(ctx, 1 if padding else 0)
        out = ctypes.create_string_buffer(len(data) + 32)
        n = ctypes.c_int(0)
        if upd(ctx, out, ctypes.byref(n), data, len(data)) != 1:
            raise ValueError("EVP update failed")
        total = n.value
        n2 = ctypes.c_int(0)
        if fin(ctx, ctypes.byref(out, total), ctypes.byref(n2)) != 1:
            raise ValueError("EVP final failed (bad padding?)")
        total += n2.value
        return out.raw[:total]
    finally:
        lib.EVP_CIPHER_CTX_free(ctx)


def aes_cbc_encrypt_raw(key, iv, data):
    assert len(data) % 16 == 0
    return _evp(key, iv, data, True)


def aes_cbc_decrypt_raw(key, iv, data):
    assert len(data) % 16 == 0
    return _evp(key, iv, data, False)


def aes_ecb_encrypt(key, data):
    return _evp(key, None, data, True, "ecb")


def aes_ecb_decrypt(key, data):
    return _evp(key, None, data, False, "ecb")


def pkcs7_pad(data):
    n = 16 - len(data) % 16
    return data + bytes([n]) * n


def pkcs7_unpad(data):
    if not data or len(data) % 16:
        raise ValueError("bad padded length")
    n = data[-1]
    if n < 1 or n > 16 or data[-n:] != bytes([n]) * n:
        raise ValueError("bad PKCS#7 padding")
    return data[:-n]


def aes_cbc_encrypt(key, iv, data):
    """PDF convention: IV || CBC(PKCS7(data))"""
    return iv + aes_cbc_encrypt_raw(key, iv, pkcs7_pad(data))


def aes_cbc_decrypt(key, blob):
    if len(blob) < 32 or len(blob) % 16:
        raise ValueError("AES blob length %d" % len(blob))
    return pkcs7_unpad(aes_cbc_decrypt_raw(key, blob[:16], blob[16:]))


# --- pure-Python AES (fallback and cross-check)
_SBOX = None


def _tables():
    global _SBOX
    if _SBOX is None:
        p = q = 1
        sbox = [0] * 256
        while True:
            p = p ^ ((p << 1) & 0xFF) ^ (0x1B if p & 0x80 else 0)
            q ^= q << 1
            q ^= q << 2
            q ^= q << 4
            q &= 0xFF
            if q & 0x80:
                q ^= 0x09
            x = q ^ ((q << 1 | q >> 7) & 0xFF) ^ ((q << 2 | q >> 6) & 0xFF) ^ ((q << 3 | q >> 5) & 0xFF) ^ ((q << 4 | q >> 4) & 0xFF)
            sbox[p] = (x ^ 0x63) & 0xFF
            if p == 1:
                break
        sbox[0] = 0x63
        inv = [0] * 256
        for i, v in enumerate(sbox):
            inv[v] = i
        _SBOX = (sbox, inv)
    return _SBOX


def _xt(a):
    return ((a << 1) ^ 0x1B) & 0xFF if a & 0x80 else a << 1


def _mul(a, b):
    r = 0
    while b:
        if b & 1:
            r ^= a
        a = _xt(a)
        b >>= 1
    return r


def _expand(key):
    sbox, _ = _tables()
    nk = len(key) // 4
    nr = nk + 6
    w = [list(key[4 * i:4 * i + 4]) for i in range(nk)]
    rc = 1
    for i in range(nk, 4 * (nr + 1)):
        t = list(w[i - 1])
        if i % nk == 0:
            t = t[1:] + t[:1]
            t = [sbox[x] for x in t]
            t[0] ^= rc
            rc = _xt(rc)
        elif nk > 6 and i % nk == 4:
            t = [sbox[x] for x in t]
        w.append([a ^ b for a, b in zip(w[i - nk], t)])
    return [sum((w[4 * r + c] for c in range(4)), []) for r in range(nr + 1)], nr


def _enc_block(rk, nr, blk):
    sbox, _ = _tables()
    s = [a ^ b for a, b in zip(blk, rk[0])]
    for r in range(1, nr + 1):
        s = [sbox[x] for x in s]
        s = [s[(i + 4 * (i % 4)) % 16] for i in range(16)]
        if r != nr:
            t = []
            for c in range(4):
                a = s[4 * c:4 * c + 4]
                t += [_xt(a[0]) ^ _xt(a[1]) ^ a[1] ^ a[2] ^ a[3], a[0] ^ _xt(a[1]) ^ _xt(a[2]) ^ a[2] ^ a[3],
                      a[0] ^ a[1] ^ _xt(a[2]) ^ _xt(a[3]) ^ a[3], _xt(a[0]) ^ a[0] ^ a[1] ^ a[2] ^ _xt(a[3])]
            s = t
        s = [a ^ b for a, b in zip(s, rk[r])]
    return bytes(s)


def _dec_block(rk, nr, blk):
    _, inv = _tables()
    s = [a ^ b for a, b in zip(blk, rk[nr])]
    for r in range(nr - 1, -1, -1):
        s = [s[(i - 4 * (i % 4)) % 16] for i in range(16)]
        s = [inv[x] for x in s]
        s = [a ^ b for a, b in zip(s, rk[r])]
        if r != 0:
            t = []
            for c in range(4):
                a = s[4 * c:4 * c + 4]
                t += [_mul(a[0], 14) ^ _mul(a[1], 11) ^ _mul(a[2], 13) ^ _mul(a[3], 9),
                      _mul(a[0], 9) ^ _mul(a[1], 14) ^ _mul(a[2], 11) ^ _mul(a[3], 13),
                      _mul(a[0], 13) ^ _mul(a[1], 9) ^ _mul(a[2], 14) ^ _mul(a[3], 11),
                      _mul(a[0], 11) ^ _mul(a[1], 13) ^ _mul(a[2], 9) ^ _mul(a[3], 14)]
            s = t
    return bytes(s)


def _aes_py(key, iv, data, encrypt, mode):
    rk, nr = _expand(key)
    out = bytearray()
    prev = iv
    for i in range(0, len(data), 16):
        blk = data[i:i + 16]
        if mode == "ecb":
            out += _enc_block(rk, nr, blk) if encrypt else _dec_block(rk, nr, blk)
        elif encrypt:
            prev = _enc_block(rk, nr, bytes(a ^ b for a, b in zip(blk, prev)))
            out += prev
        else:
            out += bytes(a ^ b for a, b in zip(_dec_block(rk, nr, blk), prev))
            prev = blk
    return bytes(out)


# -------------------------------------------------------- password prep

def pdfdoc_password(pw):
    """Algorithm 2 step a: password bytes in PDFDocEncoding (given as str), padded/truncated to 32."""
    from .enc_tables import PDFDOC
    inv = {cp: b for b, cp in PDFDOC.items()}
    b = bytes(inv[ord(c)] for c in pw)
    return (b + PAD)[:32]


def pad32(pw_bytes):
    return (pw_bytes + PAD)[:32]


def saslprep(s):
    import stringprep, unicodedata
    out = []
    for c in s:
        if stringprep.in_table_c12(c):
            out.append(" ")
        elif stringprep.in_table_b1(c):
            continue
        else:
            out.append(c)
    s = unicodedata.normalize("NFKC", "".join(out))
    return s


def utf8_password(pw):
    """R5/R6: SASLprep, UTF-8, truncate to 127 bytes."""
    return saslprep(pw).encode("utf-8")[:127]


# ------------------------------------------------- Algorithms (R2 - R4)

def alg2_key(pw32, O, P, id0, R, keylen_bytes, encrypt_metadata=True):
    """pw32: padded user password bytes. P: signed 32-bit int."""
    m = hashlib.md5()
    m.update(pw32)
    m.update(O[:32])
    m.update(struct.pack("<I", P & 0xFFFFFFFF))
    m.update(id0)
    if R >= 4 and not encrypt_metadata:
        m.update(b"\xff\xff\xff\xff")
    h = m.digest()
    n = 5 if R == 2 else keylen_bytes
    if R >= 3:
        for _ in range(50):
            h = hashlib.md5(h[:n]).digest()
    return h[:n]


def alg3_owner(owner32, user32, R, keylen_bytes):
    h = hashlib.md5(owner32).digest()
    n = 5 if R == 2 else keylen_bytes
    if R >= 3:
        for _ in range(50):
            h = hashlib.md5(h).digest()
    key = h[:n]
    x = rc4(key, user32)
    if R >= 3:
        for i in range(1, 20):
            x = rc4(bytes(b ^ i for b in key), x)
    return x


def alg4_5_user(key, R, id0):
    if R == 2:
        return rc4(key, PAD)
    h = hashlib.md5(PAD + id0).digest()
    x = rc4(key, h)
    for i in range(1, 20):
        x = rc4(bytes(b ^ i for b in key), x)
    return x + bytes(16)


def alg6_check_user(pw32, O, U, P, id0, R, keylen_bytes, em=True):
    key = alg2_key(pw32, O, P, id0, R, keylen_bytes, em)
    u = alg4_5_user(key, R, id0)
    ok = (u == U[:32]) if R == 2 else (u[:16] == U[:16])
    return key if ok else None


def alg7_owner_to_user(owner32, O, R, keylen_bytes):
    h = hashlib.md5(owner32).digest()
    n = 5 if R == 2 else keylen_bytes
    if R >= 3:
        for _ in range(50):
            h = hashlib.md5(h).digest()
    key = h[:n]
    x = O[:32]
    if R == 2:
        return rc4(key, x)
    for i in range(19, -1, -1):
        x = rc4(bytes(b ^ i for b in key), x)
    return x


def alg1_object_key(key, num, gen, aes):
    m = hashlib.md5(key + struct.pack("<I", num)[:3] + struct.pack("<I", gen)[:2] + (b"sAlT" if aes else b""))
    return m.digest()[:min(len(key) + 5, 16)]


# ---------------------------------------------------- Algorithms (R5, R6)

def alg2b_hash(pw, salt, udata, R):
    k = hashlib.sha256(pw + salt + udata).digest()
    if R < 6:
        return k
    i = 0
    while True:
        k1 = (pw + k + udata) * 64
        e = aes_cbc_encrypt_raw(k[:16], k[16:32], k1)
        mod = sum(e[:16]) % 3
        k = (hashlib.sha256, hashlib.sha384, hashlib.sha512)[mod](e).digest()
        i += 1
        if i >= 64 and e[-1] <= i - 32:
            break
    return k[:32]


def alg2a_file_key(pw, U, O, UE, OE, R):
    """returns (file_key, 'owner'|'user') or (None, None)"""
    pw = pw[:127]
    if len(O) >= 48 and len(U) >= 48:
        if alg2b_hash(pw, O[32:40], U[:48], R) == O[:32]:
            ik = alg2b_hash(pw, O[40:48], U[:48], R)
            return aes_cbc_decrypt_raw(ik, bytes(16), OE[:32]), "owner"
        if alg2b_hash(pw, U[32:40], b"", R) == U[:32]:
            ik = alg2b_hash(pw, U[40:48], b"", R)
            return aes_cbc_decrypt_raw(ik, bytes(16), UE[:32]), "user"
    return None, None


def alg8_user(pw, file_key, R, vsalt, ksalt):
    U = alg2b_hash(pw, vsalt, b"", R) + vsalt + ksalt
    UE = aes_cbc_encrypt_raw(alg2b_hash(pw, ksalt, b"", R), bytes(16), file_key)
    return U, UE


def alg9_owner(pw, file_key, U, R, vsalt, ksalt):
    O = alg2b_hash(pw, vsalt, U[:48], R) + vsalt + ksalt
    OE = aes_cbc_encrypt_raw(alg2b_hash(pw, ksalt, U[:48], R), bytes(16), file_key)
    return O, OE


def alg10_perms(P, encrypt_metadata, file_key, rnd4=b"\0\0\0\0"):
    blk = struct.pack("<I", P & 0xFFFFFFFF) + b"\xff\xff\xff\xff" + (b"T" if encrypt_metadata else b"F") + b"adb" + rnd4
    return aes_ecb_encrypt(file_key, blk)


def alg13_check_perms(perms, file_key):
    d = aes_ecb_decrypt(file_key, perms[:16])
    return d[9:12] == b"adb", struct.unpack("<i", d[:4])[0], d[8:9]


# ------------------------------------------------------------ decryptor

class Decryptor:
    """password: bytes as found in the API (for R<=4 interpreted per Algorithm 2, i.e.
    already PDFDocEncoding bytes; for R>=5 UTF-8 bytes)."""

    def __init__(self, encd, id0, password):
        from .pdf import Name, String, PdfError
        self.PdfError = PdfError
        g = encd.get
        if g(b"Filter") != Name(b"Standard"):
            raise PdfError("unsupported security handler %r" % (g(b"Filter"),))
        self.V = g(b"V", 0)
        self.R = g(b"R")
        self.O = g(b"O").v
        self.U = g(b"U").v
        self.P = g(b"P")
        if self.P >= 2 ** 31:
            self.P -= 2 ** 32
        self.em = g(b"EncryptMetadata", True)
        length = g(b"Length", 40)
        self.stm_method = self.str_method = "RC4"
        if self.V == 1:
            length = 40
        if self.V >= 4:
            cf = g(b"CF", {})
            def method(nm):
                if nm is None or nm == Name(b"Identity"):
                    return "Identity"
                f = cf.get(nm.v)
                if f is None:
                    raise PdfError("crypt filter %r not in /CF" % (nm,))
                m = f.get(b"CFM", Name(b"None")).v
                return {b"V2": "RC4", b"AESV2": "AESV2", b"AESV3": "AESV3", b"None": "Identity"}[m]
            self.stm_method = method(g(b"StmF"))
            self.str_method = method(g(b"StrF"))
            std = cf.get(b"StdCF", {})
            if b"Length" in std and self.V == 4:
                l = std[b"Length"]
                length = l * 8 if l <= 40 else l
            elif self.V == 4:
                length = 128
        self.keylen = length // 8
        self.authenticated_as = None
        if self.R <= 4:
            key = alg6_check_user(pad32(password), self.O, self.U, self.P, id0, self.R, self.keylen, self.em)
            if key is not None:
                self.authenticated_as = "user"
            else:
                u32 = alg7_owner_to_user(pad32(password), self.O, self.R, self.keylen)
                key = alg6_check_user(u32, self.O, self.U, self.P, id0, self.R, self.keylen, self.em)
                if key is not None:
                    self.authenticated_as = "owner"
            if key is None:
                raise PdfError("password does not authenticate")
            self.key = key
        else:
            UE, OE = g(b"UE").v, g(b"OE").v
            key, who = alg2a_file_key(password, self.U, self.O, UE, OE, self.R)
            if key is None:
                raise PdfError("password does not authenticate")
            self.key, self.authenticated_as = key, who
            perms = g(b"Perms")
            if perms is not None:
                ok, p, em = alg13_check_perms(perms.v, key)
                self.perms_ok = ok and p == self.P
            self.stm_method = "AESV3" if self.stm_method not in ("Identity",) else "Identity"
            self.str_method = "AESV3" if self.str_method not in ("Identity",) else "Identity"

    def _dec(self, data, num, gen, method):
        if method == "Identity":
            return data
        if method == "AESV3":
            return aes_cbc_decrypt(self.key, data) if data else data
        k = alg1_object_key(self.key, num, gen, method == "AESV2")
        if method == "AESV2":
            return aes_cbc_decrypt(k, data) if data else data
        return rc4(k, data)

    def decrypt_object(self, o, num, gen):
        from .pdf import String, Stream, Name
        if isinstance(o, String):
            return String(self._dec(o.v, num, gen, self.str_method), o.hex)
        if isinstance(o, list):
            return [self.decrypt_object(x, num, gen) for x in o]
        if isinstance(o, dict):
            return {k: self.decrypt_object(v, num, gen) for k, v in o.items()}
        if isinstance(o, Stream):
            d = {k: self.decrypt_object(v, num, gen) for k, v in o.dict.items()}
            method = self.stm_method
            t = o.dict.get(b"Type")
            if t == Name(b"XRef"):
                method = "Identity"
            if t == Name(b"Metadata") and not self.em and self.V >= 4:
                method = "Identity"
            flt = o.dict.get(b"Filter")
            flts = flt if isinstance(flt, list) else [flt]
            if flts and flts[0] == Name(b"Crypt"):
                dp = o.dict.get(b"DecodeParms")
                dp0 = dp[0] if isinstance(dp, list) else dp
                has_name = isinstance(dp0, dict) and b"Name" in dp0
                nm = dp0[b"Name"] if has_name else Name(b"Identity")
                if nm == Name(b"Identity") and (has_name or not getattr(self, "lenient_crypt_default", False)):
                    method = "Identity"
            return Stream(d, self._dec(o.raw, num, gen, method), o.offset)
        return o


# ------------------------------------------------------------- encryptor

class Encryptor:
    """Builds /Encrypt entries and encrypts strings/streams; deterministic given rnd()."""

    def __init__(self, mode, user_pw, owner_pw, P, id0, encrypt_metadata=True, rnd=os.urandom):
        """mode: 'rc4_40' (V1 R2), 'rc4_128' (V2 R3), 'rc4_v4' (V4 R4 /V2), 'aes_128' (V4 R4 AESV2), 'aes_256' (V5 R6).
        passwords: bytes (PDFDoc bytes for R<=4, UTF-8 for R6)."""
        self.mode, self.P, self.em, self.rnd = mode, P, encrypt_metadata, rnd
        self.id0 = id0
        if mode == "aes_256":
            self.V, self.R, self.keylen = 5, 6, 32
            self.key = rnd(32)
            self.U, self.UE = alg8_user(user_pw[:127], self.key, 6, rnd(8), rnd(8))
            self.O, self.OE = alg9_owner(owner_pw[:127], self.key, self.U, 6, rnd(8), rnd(8))
            self.Perms = alg10_perms(P, encrypt_metadata, self.key, rnd(4))
            self.method = "AESV3"
        else:
            self.V, self.R, self.keylen = {"rc4_40": (1, 2, 5), "rc4_128": (2, 3, 16), "rc4_v4": (4, 4, 16), "aes_128": (4, 4, 16)}[mode]
            self.O = alg3_owner(pad32(owner_pw or user_pw), pad32(user_pw), self.R, self.keylen)
            self.key = alg2_key(pad32(user_pw), self.O, P, id0, self.R, self.keylen, encrypt_metadata)
            self.U = alg4_5_user(self.key, self.R, id0)
            self.method = "AESV2" if mode == "aes_128" else "RC4"

    def encrypt_dict(self):
        from .pdf import Name, String
        d = {b"Filter": Name(b"Standard"), b"V": self.V, b"R": self.R, b"O": String(self.O), b"U": String(self.U), b"P": self.P}
        if self.V == 2:
            d[b"Length"] = 128
        if self.V >= 4:
            cfm = {"RC4": b"V2", "AESV2": b"AESV2", "AESV3": b"AESV3"}[self.method]
            d[b"CF"] = {b"StdCF": {b"Type": Name(b"CryptFilter"), b"CFM": Name(cfm), b"AuthEvent": Name(b"DocOpen"), b"Length": self.keylen}}
            d[b"StmF"] = Name(b"StdCF")
            d[b"StrF"] = Name(b"StdCF")
            d[b"Length"] = self.keylen * 8
            if not self.em:
                d[b"EncryptMetadata"] = False
        if self.V == 5:
            d[b"OE"] = String(self.OE)
            d[b"UE"] = String(self.UE)
            d[b"Perms"] = String(self.Perms)
        return d

    def enc(self, data, num, gen):
        if self.method == "AESV3":
            return aes_cbc_encrypt(self.key, self.rnd(16), data)
        k = alg1_object_key(self.key, num, gen, self.method == "AESV2")
        if self.method == "AESV2":
            return aes_cbc_encrypt(k, self.rnd(16), data)
        return rc4(k, data)

    def encrypt_object(self, o, num, gen):
        from .pdf import String, Stream, Name
        if isinstance(o, String):
            return String(self.enc(o.v, num, gen), True)
        if isinstance(o, list):
            return [self.encrypt_object(x, num, gen) for x in o]
        if isinstance(o, dict):
            return {k: self.encrypt_object(v, num, gen) for k, v in o.items()}
        if isinstance(o, Stream):
            d = {k: self.encrypt_object(v, num, gen) for k, v in o.dict.items()}
            t = o.dict.get(b"Type")
            if t == Name(b"XRef") or (t == Name(b"Metadata") and not self.em and self.V >= 4):
                raw = o.raw
            else:
                raw = self.enc(o.raw, num, gen)
            d[b"Length"] = len(raw)
            return Stream(d, raw)
        return o


def selftest():
    errs = []
    # RFC 6229 (key 0x0102030405, first 16 bytes of keystream)
    if rc4(bytes.fromhex("0102030405"), bytes(16)).hex() != "b2396305f03dc027ccc3524a0a1118a8":
        errs.append("rc4 rfc6229")
    # FIPS-197 C.1 / C.3 via both implementations
    k128 = bytes.fromhex("000102030405060708090a0b0c0d0e0f")
    k256 = bytes.fromhex("000102030405060708090a0b0c0d0e0f101112131415161718191a1b1c1d1e1f")
    pt = bytes.fromhex("00112233445566778899aabbccddeeff")
    for key, want in ((k128, "69c4e0d86a7b0430d8cdb78070b4c55a"), (k256, "8ea2b7ca516745bfeafc49904b496089")):
        if _aes_py(key, None, pt, True, "ecb").hex() != want:
            errs.append("aes-py fips197 %d" % len(key))
        if _aes_py(key, None, bytes.fromhex(want), False, "ecb") != pt:
            errs.append("aes-py fips197 dec %d" % len(key))
        if _libcrypto() and aes_ecb_encrypt(key, pt).hex() != want:
            errs.append("aes-openssl fips197 %d" % len(key))
    # cross-check CBC both ways on random data
    import random
    r = random.Random(7)
    for _ in range(20):
        key = bytes(r.randrange(256) for _ in range(r.choice((16, 32))))
        iv = bytes(r.randrange(256) for _ in range(16))
        data = bytes(r.randrange(256) for _ in range(16 * r.randrange(0, 6)))
        a = _aes_py(key, iv, data, True, "cbc")
        if _libcrypto() and a != aes_cbc_encrypt_raw(key, iv, data):
            errs.append("cbc mismatch py/openssl")
        if _aes_py(key, iv, a, False, "cbc") != data:
            errs.append("cbc py roundtrip")
    return errs
