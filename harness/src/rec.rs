//! Per-shard recorder: what the monitors observed in this process. The driver
//! (`/verif/check`) merges the shard files, classifies violations against
//! known_findings.jsonl and writes the evidence file.
use serde_json::{json, Map, Value};
use std::collections::{BTreeMap, HashSet};
use std::io::Write;
use std::path::{Path, PathBuf};

#[derive(Clone, Copy, Debug, PartialEq, Eq)]
pub enum Tier {
    Quick,
    Thorough,
}

#[derive(Clone, Debug)]
pub struct Ctx {
    pub id: String,
    pub seed: u64,
    pub tier: Tier,
    pub shard: usize,
    pub nshards: usize,
    pub out: PathBuf,
    /// free-form extra args (`--arg k=v`)
    pub args: BTreeMap<String, String>,
}

impl Ctx {
    pub fn quick(&self) -> bool {
        self.tier == Tier::Quick
    }
    /// pick by tier
    pub fn qt<T>(&self, q: T, t: T) -> T {
        if self.quick() {
            q
        } else {
            t
        }
    }
    /// Does global case index `i` belong to this shard?
    pub fn mine(&self, i: u64) -> bool {
        (i % self.nshards as u64) as usize == self.shard
    }
    pub fn arg(&self, k: &str) -> Option<&str> {
        self.args.get(k).map(|s| s.as_str())
    }
    pub fn arg_u64(&self, k: &str, default: u64) -> u64 {
        self.arg(k).and_then(|s| s.parse().ok()).unwrap_or(default)
    }
}

pub struct Violation {
    pub sig: String,
    pub detail: String,
    pub replay: Value,
}

pub struct Recorder {
    pub evaluations: u64,
    pub hashes: HashSet<u64>,
    /// violations grouped by signature: (count, first witness)
    pub violations: BTreeMap<String, (u64, Violation)>,
    pub samples: Vec<Value>,
    pub max_samples: usize,
    pub counters: BTreeMap<String, u64>,
    pub inconclusive: u64,
    pub inconclusive_notes: Vec<String>,
    pub extra: Map<String, Value>,
    pub sets: BTreeMap<String, HashSet<String>>,
}

impl Default for Recorder {
    fn default() -> Self {
        Self::new()
    }
}

impl Recorder {
    pub fn new() -> Self {
        Recorder {
            evaluations: 0,
            hashes: HashSet::new(),
            violations: BTreeMap::new(),
            samples: Vec::new(),
            max_samples: 6,
            counters: BTreeMap::new(),
            inconclusive: 0,
            inconclusive_notes: Vec::new(),
            extra: Map::new(),
            sets: BTreeMap::new(),
        }
    }
    /// One evaluated case. `descriptor` identifies the case (distinct
    /// counting); `nontrivial` is the property's stated rule.
    pub fn case(&mut self, descriptor: &[u8], nontrivial: bool) {
        self.evaluations += 1;
        if nontrivial {
            self.hashes.insert(crate::rng::fnv64(descriptor));
        }
    }
    pub fn eval_only(&mut self, n: u64) {
        self.evaluations += n;
    }
    pub fn count(&mut self, key: &str) {
        *self.counters.entry(key.to_string()).or_insert(0) += 1;
    }
    pub fn count_n(&mut self, key: &str, n: u64) {
        *self.counters.entry(key.to_string()).or_insert(0) += n;
    }
    /// Add a member to a named set (e.g. distinct interleaving signatures,
    /// coverage matrix cells); the driver unions sets over shards.
    pub fn set_add(&mut self, set: &str, member: impl Into<String>) {
        self.sets
            .entry(set.to_string())
            .or_default()
            .insert(member.into());
    }
    pub fn sample(&mut self, v: Value) {
        if self.samples.len() < self.max_samples {
            self.samples.push(v);
        }
    }
    pub fn violation(&mut self, sig: impl Into<String>, detail: impl Into<String>, replay: Value) {
        let sig = sig.into();
        let e = self.violations.entry(sig.clone()).or_insert_with(|| {
            (
                0,
                Violation {
                    sig,
                    detail: detail.into(),
                    replay,
                },
            )
        });
        e.0 += 1;
    }
    pub fn inconclusive(&mut self, note: impl Into<String>) {
        self.inconclusive += 1;
        if self.inconclusive_notes.len() < 10 {
            self.inconclusive_notes.push(note.into());
        }
    }

    pub fn write(&self, ctx: &Ctx) -> std::io::Result<()> {
        std::fs::create_dir_all(&ctx.out)?;
        // one file per (workload, shard): a later stage of the same check must not overwrite an earlier one
        let base = ctx.out.join(format!("shard-{}-{}", ctx.id, ctx.shard));
        // hashes as binary u64 LE
        let mut hb = Vec::with_capacity(self.hashes.len() * 8);
        for h in &self.hashes {
            hb.extend_from_slice(&h.to_le_bytes());
        }
        std::fs::write(base.with_extension("hashes"), hb)?;
        let viols: Vec<Value> = self
            .violations
            .values()
            .map(|(n, v)| json!({"sig": v.sig, "count": n, "detail": v.detail, "replay": v.replay}))
            .collect();
        let sets: Map<String, Value> = self
            .sets
            .iter()
            .map(|(k, s)| {
                let mut v: Vec<&String> = s.iter().collect();
                v.sort();
                (k.clone(), json!(v))
            })
            .collect();
        let doc = json!({
            "shard": ctx.shard,
            "evaluations": self.evaluations,
            "distinct_local": self.hashes.len(),
            "violations": viols,
            "samples": self.samples,
            "counters": self.counters,
            "sets": sets,
            "inconclusive": self.inconclusive,
            "inconclusive_notes": self.inconclusive_notes,
            "extra": self.extra,
        });
        let mut f = std::fs::File::create(base.with_extension("json"))?;
        f.write_all(serde_json::to_string(&doc).unwrap().as_bytes())?;
        Ok(())
    }
}

pub fn hex(b: &[u8]) -> String {
    let mut s = String::with_capacity(b.len() * 2);
    for x in b {
        s.push_str(&format!("{:02x}", x));
    }
    s
}

pub fn unhex(s: &str) -> Vec<u8> {
    let b = s.as_bytes();
    let mut v = Vec::with_capacity(b.len() / 2);
    let mut i = 0;
    while i + 1 < b.len() {
        let h = (b[i] as char).to_digit(16).unwrap_or(0) as u8;
        let l = (b[i + 1] as char).to_digit(16).unwrap_or(0) as u8;
        v.push(h << 4 | l);
        i += 2;
    }
    v
}

pub fn write_file(p: &Path, data: &[u8]) {
    if let Some(d) = p.parent() {
        let _ = std::fs::create_dir_all(d);
    }
    let _ = std::fs::write(p, data);
}
