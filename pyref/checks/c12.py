"""C12 — font subsetting keeps every requested glyph intact. The subset produced by the library is read
with the independent sfnt reader: well-formed container (sorted directory, bounds, alignment, checksums),
consistent loca/glyf/maxp/hhea/hmtx, and for every requested character that the original font maps, a
glyph in the subset (through the returned glyph_mapping) whose flattened outline and advance width equal
the original's."""
import os
from multiprocessing import Pool
from ..font import Sfnt, FontError
from .common import args
from .docchecks import load_doc_cases
from ..recpy import Recorder

_ORIG = {}


def orig(path):
    if path not in _ORIG:
        f = Sfnt(open(path, "rb").read())
        _ORIG[path] = (f, f.cmap())
    return _ORIG[path]


def structure(sub):
    probs = list(sub.problems)
    need = [b"glyf", b"head", b"hhea", b"hmtx", b"loca", b"maxp"]
    for t in need:
        if t not in sub.tables:
            probs.append("table %r missing" % t)
    if probs:
        return probs
    try:
        lo = sub.loca()
    except FontError as e:
        return [str(e)]
    if any(a > b for a, b in zip(lo, lo[1:])):
        probs.append("loca offsets are not monotone")
    if lo and lo[-1] > len(sub.tables[b"glyf"]):
        probs.append("last loca offset %d beyond glyf (%d)" % (lo[-1], len(sub.tables[b"glyf"])))
    nh, ng = sub.num_hmetrics, sub.num_glyphs
    if nh is None or ng is None or nh < 1 or nh > ng:
        probs.append("numberOfHMetrics %r with numGlyphs %r" % (nh, ng))
    elif len(sub.tables[b"hmtx"]) < 4 * nh + 2 * (ng - nh):
        probs.append("hmtx has %d bytes, %d metrics + %d bearings need %d" % (len(sub.tables[b"hmtx"]), nh, ng - nh, 4 * nh + 2 * (ng - nh)))
    return probs


def analyse(job):
    d, c = job
    out, stats = [], {"glyphs_compared": 0, "subsets_parsed": 0, "cff_not_parsed": 0, "characters_font_lacks": 0}
    api, font = c["api"], c["font"]
    wit = {k: c.get(k) for k in ("case", "seed", "api", "font", "chars", "gids", "file")}
    if "error" in c:
        # refusing is acceptable unless the request is ordinary
        ordinary = api == "subset_font" and any(cp in orig(c["font_path"])[1] for cp in c["chars"])
        if ordinary:
            out.append(("C12|%s|ordinary_request_refused|%s" % (api, font), c["error"][:300], wit))
        return out, stats
    of, ocm = orig(c["font_path"])
    data = open(os.path.join(d, c["file"]), "rb").read()
    if c.get("is_raw_cff") or of.is_cff:
        stats["cff_not_parsed"] += 1
        # CFF outlines are not interpreted here: only the mapping is judged
        gm = {int(k): v for k, v in c.get("glyph_mapping", {}).items()}
        for cp in c.get("chars", []):
            if cp in ocm and cp not in gm:
                out.append(("C12|subset_font|requested_character_missing_from_glyph_mapping|%s" % font, "U+%04X" % cp, wit))
                break
        return out, stats
    try:
        sub = Sfnt(data)
    except FontError as e:
        out.append(("C12|%s|subset_is_not_an_sfnt|%s" % (api, font), str(e), wit))
        return out, stats
    stats["subsets_parsed"] += 1
    probs = structure(sub)
    if probs:
        import re
        kind = re.sub(r"[0-9]+", "N", probs[0].split("(")[0]).strip().replace(" ", "_")[:60]
        out.append(("C12|%s|malformed_subset|%s|%s" % (api, kind, font), "; ".join(probs)[:400], wit))
        return out, stats
    pairs = []  # (label, original gid, subset gid)
    if api == "subset_font":
        gm = {int(k): v for k, v in c["glyph_mapping"].items()}
        for cp in c["chars"]:
            if cp not in ocm:
                stats["characters_font_lacks"] += 1
                continue
            if cp not in gm:
                out.append(("C12|subset_font|requested_character_missing_from_glyph_mapping|%s" % font, "U+%04X (original glyph %d)" % (cp, ocm[cp]), wit))
                return out, stats
            pairs.append(("U+%04X" % cp, ocm[cp], gm[cp]))
    else:
        o2n = {int(k): v for k, v in c["old_to_new"].items()}
        for g in c["gids"]:
            if g >= of.num_glyphs:
                continue
            if g not in o2n:
                out.append(("C12|subset_font_by_gids|requested_glyph_missing_from_map|%s" % font, "glyph %d" % g, wit))
                return out, stats
            pairs.append(("gid %d" % g, g, o2n[g]))
    for label, og, sg in pairs:
        stats["glyphs_compared"] += 1
        try:
            a = of.outline(og)
        except FontError as e:
            continue  # the original itself is odd there: not judged
        try:
            b = sub.outline(sg)
        except (FontError, IndexError, Exception) as e:
            out.append(("C12|%s|subset_glyph_unreadable|%s" % (api, font), "%s -> subset glyph %d: %r" % (label, sg, e), wit))
            return out, stats
        if a != b:
            comp = "composite" if of.components(og) else "simple"
            out.append(("C12|%s|outline_differs|%s|%s" % (api, comp, font), "%s: original glyph %d has %d contours / %d points, subset glyph %d has %d / %d" % (label, og, len(a), sum(len(x) for x in a), sg, len(b), sum(len(x) for x in b)), wit))
            return out, stats
        if of.advance(og) != sub.advance(sg):
            out.append(("C12|%s|advance_width_differs|%s" % (api, font), "%s: original %r, subset %r" % (label, of.advance(og), sub.advance(sg)), wit))
            return out, stats
    return out, stats


def main():
    out, seed, tier, kv = args()
    rec = Recorder("py")
    d = os.path.join(out, "cases")
    cases = load_doc_cases(d)
    with Pool(min(16, os.cpu_count() or 4)) as pool:
        for c, (viol, stats) in zip(cases, pool.imap(analyse, [(d, c) for c in cases], chunksize=4)):
            rec.case(c["id"], True)
            for k, v in stats.items():
                rec.count(k, v)
            rec.set_add("api_x_font", "%s|%s" % (c["api"], c["font"]))
            for sig, detail, wit in viol:
                rec.violation(sig, detail, wit)
    rec.write(out)


if __name__ == "__main__":
    main()
