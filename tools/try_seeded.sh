#!/bin/bash
# usage: tools/try_seeded.sh <patch.diff> <check id> [extra check args]  — applies the change to /repo, runs the check, reverts
set -u
patch=$1; id=$2; shift 2
cd /verif
if ! git -C /repo apply --check "$patch" 2>/dev/null; then
  if ! git -C /repo apply --3way "$patch" 2>/tmp/apply.err; then echo "DOES NOT APPLY: $patch"; cat /tmp/apply.err | tail -3; git -C /repo checkout -- . ; exit 2; fi
  git -C /repo reset -q
else
  git -C /repo apply "$patch"
fi
git -C /repo status --short | head -5
VERIF_TRIAL=/tmp/verif-trial ./check "$id" "$@" 2>&1 | grep -E "VIOLATION|SUMMARY|INCONCL|KNOWN|error" | cut -c1-400 | head -12
git -C /repo checkout -- .
git -C /repo status --short | grep -v '^??' | head
