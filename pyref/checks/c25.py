"""C25 checker: the library's dumped behaviour vs the Annex D tables."""
import json, os, sys
from .. import enc_tables as T
from ..recpy import Recorder


def runs(codes):
    """coalesce sorted ints into 'a-b' ranges"""
    out = []
    codes = sorted(codes)
    i = 0
    while i < len(codes):
        j = i
        while j + 1 < len(codes) and codes[j + 1] == codes[j] + 1:
            j += 1
        out.append((codes[i], codes[j]))
        i = j + 1
    return out


def fmt_range(a, b, w=2):
    return ("0x%0*X" % (w, a)) if a == b else ("0x%0*X-0x%0*X" % (w, a, w, b))


def main(out_dir, seed, tier):
    rec = Recorder("py")
    errs = T.selftest()
    if errs:
        rec.inconc("enc_tables selftest failed: %r" % (errs,))
        rec.write(out_dir)
        return
    dump = json.load(open(os.path.join(out_dir, "c25-dump.json")))
    for enc, table in T.TABLE.items():
        d = dump[enc]
        soft_b = T.SOFT_BYTES[enc]
        soft_c = T.soft_chars(enc)
        inv = {cp: b for b, cp in table.items()}
        # ---- decode, byte by byte
        bad = {}
        for b in range(256):
            rec.case("dec|%s|%d" % (enc, b), nontrivial=(b in table))
            if b in soft_b or b not in table:
                continue
            got = d["decode"][b]
            if got != [table[b]]:
                kind = "utf8_passthrough" if got == [0xFFFD] or (b < 0x80 and got == [b]) else "wrong_char"
                bad.setdefault(kind, []).append(b)
        for kind, codes in bad.items():
            for a, z in runs(codes):
                rec.violation("C25|%s|decode|%s|%s" % (enc, kind, fmt_range(a, z)),
                              "decode([b]) differs from Annex D for bytes %s; e.g. byte 0x%02X -> %r, table U+%04X"
                              % (fmt_range(a, z), a, d["decode"][a], table[a]),
                              {"encoding": enc, "byte": a, "got": d["decode"][a], "expected": table[a]})
        # ---- encode_strict over all scalar values
        strict = {}
        for a, z in d["strict_identity_runs"]:
            for cp in range(a, z + 1):
                strict[cp] = [cp]
        for cp, bs in d["strict_other"]:
            strict[cp] = bs
        missing, wrong, extra = [], [], []
        for cp, b in inv.items():
            if cp in soft_c:
                continue
            got = strict.get(cp)
            if got is None:
                missing.append(cp)
            elif got != [b]:
                wrong.append(cp)
        for cp in strict:
            if cp not in inv and cp not in soft_c:
                extra.append(cp)
        nscalars = 0x110000 - 0x800
        pass
        for cp in inv:
            rec.case("enc|%s|%d" % (enc, cp))
        # signatures are keyed by the *table byte* the character belongs to (contiguous
        # in the Annex D table), not by scattered Unicode ranges
        for name, lst in (("strict_rejects_table_char", missing), ("strict_wrong_byte", wrong)):
            for a, z in runs([inv[cp] for cp in lst]):
                ex = table[a]
                rec.violation("C25|%s|encode_strict|%s|table_bytes_%s" % (enc, name, fmt_range(a, z)),
                              "encode_strict: %s for the characters of table bytes %s (first: U+%04X got %r, table byte 0x%02X)"
                              % (name, fmt_range(a, z), ex, strict.get(ex), a),
                              {"encoding": enc, "char": ex, "got": strict.get(ex), "expected": a})
        for a, z in runs(extra):
            rec.violation("C25|%s|encode_strict|strict_accepts_char_outside_table|%s" % (enc, fmt_range(a, z, 4)),
                          "encode_strict accepts U+%04X..U+%04X which Annex D does not list (first got %r)"
                          % (a, z, strict.get(a)), {"encoding": enc, "char": a, "got": strict.get(a)})
        # ---- round trip decode(encode_strict(c)) == c
        rt_bad = []
        for cp, bs in strict.items():
            if cp in soft_c or len(bs) != 1 or bs[0] in soft_b:
                continue
            if d["decode"][bs[0]] != [cp]:
                rt_bad.append(cp)
        for a, z in runs(rt_bad):
            rec.violation("C25|%s|roundtrip|decode_of_encode_strict_differs|%s" % (enc, fmt_range(a, z, 4)),
                          "decode(encode_strict(c)) != c for U+%04X..U+%04X" % (a, z),
                          {"encoding": enc, "char": a})
        # ---- lossy encode: characters outside the repertoire must not be silently replaced
        silent = {"q": 0, "utf8": 0, "byte": 0}
        first = {}
        lossy_wrong = []
        import bisect
        eruns = d["encode_runs"]
        starts = [r[0] for r in eruns]
        for a, z, cls in eruns:
            n_in = sum(1 for cp in inv if a <= cp <= z) + sum(1 for cp in soft_c if a <= cp <= z and cp not in inv)
            n_sur = max(0, min(z, 0xDFFF) - max(a, 0xD800) + 1)
            n_out = (z - a + 1) - n_in - n_sur
            key = "q" if cls == "q" else ("utf8" if cls == "utf8" else ("byte" if cls != "id" else "id"))
            if key == "id":
                key = "byte"
            if n_out > 0:
                silent[key] += n_out
                first.setdefault(key, a)
        for cp, exp in inv.items():
            if cp in soft_c:
                continue
            a, z, cls = eruns[bisect.bisect_right(starts, cp) - 1]
            got = [cp] if cls == "id" else (None if cls in ("q", "utf8") else list(bytes.fromhex(cls[2:])))
            if got != [exp]:
                lossy_wrong.append(cp)
        for key, n in silent.items():
            if n:
                what = {"q": "replaced_by_question_mark", "utf8": "emitted_as_utf8_bytes", "byte": "mapped_to_some_byte"}[key]
                rec.violation("C25|%s|encode|unencodable_char_silently_%s" % (enc, what),
                              "encode(c) returns bytes with no report for %d characters outside the repertoire (first U+%04X)"
                              % (n, first[key]), {"encoding": enc, "char": first[key]})
        for a, z in runs([inv[cp] for cp in lossy_wrong]):
            rec.violation("C25|%s|encode|table_char_wrong_bytes|table_bytes_%s" % (enc, fmt_range(a, z)),
                          "encode(c) != Annex D byte for the characters of table bytes %s (first U+%04X)"
                          % (fmt_range(a, z), table[a]), {"encoding": enc, "char": table[a]})
        rec.count("table_entries_" + enc, len(table))
    # ---- PdfString::to_text, no BOM => PDFDocEncoding (7.9.2.2)
    bad = []
    for b in range(256):
        rec.case("to_text|%d" % b, nontrivial=(b in T.PDFDOC))
        if b in T.PDFDOC and dump["to_text"][b] != [T.PDFDOC[b]]:
            bad.append(b)
    for a, z in runs(bad):
        rec.violation("C25|to_text|pdfdoc_decode|%s" % fmt_range(a, z),
                      "PdfString::to_text of byte 0x%02X gives %r, PDFDocEncoding says U+%04X"
                      % (a, dump["to_text"][a], T.PDFDOC[a]), {"byte": a})
    rec.sample({"encoding": "WinAnsi", "byte": 0x80, "decode": dump["WinAnsi"]["decode"][0x80], "table": T.WIN[0x80]})
    rec.sample({"encoding": "PdfDoc", "byte": 0x8A, "decode": dump["PdfDoc"]["decode"][0x8A], "table": T.PDFDOC[0x8A]})
    rec.sample({"encoding": "Standard", "byte": 0xE8, "decode": dump["Standard"]["decode"][0xE8], "table": T.STD[0xE8]})
    rec.extra["exhaustive"] = True
    rec.write(out_dir)


if __name__ == "__main__":
    main(sys.argv[1], int(sys.argv[2]), sys.argv[3])
