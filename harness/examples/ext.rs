use oxidize_pdf::parser::{ParseOptions, PdfReader};
use oxidize_pdf::text::{ExtractionOptions, TextExtractor};
fn main() {
    let args: Vec<String> = std::env::args().skip(1).collect();
    let n: usize = args[0].parse().unwrap();
    for p in &args[1..] {
        let bytes = std::fs::read(p).unwrap();
        let mut seen = std::collections::BTreeMap::new();
        for _ in 0..n {
            let doc = PdfReader::new_with_options(std::io::Cursor::new(bytes.clone()), ParseOptions::default()).unwrap().into_document();
            let t = TextExtractor::with_options(ExtractionOptions::default()).extract_from_page(&doc, 0).unwrap();
            *seen.entry(t.text).or_insert(0) += 1;
        }
        if seen.len() > 1 {
            println!("{p}: {} distinct outputs over {n} runs", seen.len());
            for (k, v) in &seen {
                println!("  {v}x {k:?}");
            }
        }
    }
}
