"""Validate the independent references themselves."""
import sys
from . import enc_tables

def main():
    ok = True
    e = enc_tables.selftest()
    print("enc_tables:", "OK" if not e else e)
    ok &= not e
    for name in ("crypto", "pdf", "filters", "cmap", "labels", "font"):
        try:
            mod = __import__("pyref." + name, fromlist=["selftest"])
        except ImportError:
            continue
        if hasattr(mod, "selftest"):
            e = mod.selftest()
            print(name + ":", "OK" if not e else e)
            ok &= not e
    return 0 if ok else 1

if __name__ == "__main__":
    sys.exit(main())
