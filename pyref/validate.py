"""Structural validator (C03): only rules ISO 32000-1 §7.5 states with 'shall'."""
from . import pdf
from .pdf import Name, String, Ref, Stream, PdfError


def refs_in(o, acc):
    if isinstance(o, Ref):
        acc.append(o)
    elif isinstance(o, list):
        for x in o:
            refs_in(x, acc)
    elif isinstance(o, dict):
        for x in o.values():
            refs_in(x, acc)
    elif isinstance(o, Stream):
        refs_in(o.dict, acc)


def validate(data, expect_encrypted=False, password=None):
    """-> (problems, doc) ; problems = list of (rule, message)"""
    probs = []
    try:
        doc = pdf.Document(data, password=password, strict=True)
    except PdfError as e:
        return [("cross_reference_or_header", str(e))], None
    except Exception as e:  # reference crash = harness problem, surfaced separately
        return [("validator_internal_error", "%s: %s" % (type(e).__name__, e))], None
    tr = doc.trailer
    if b"Root" not in tr:
        probs.append(("trailer_without_Root", "newest trailer has no /Root"))
    if expect_encrypted:
        if b"Encrypt" not in tr:
            probs.append(("encrypted_file_without_Encrypt", "document was encrypted but the trailer has no /Encrypt"))
        if b"ID" not in tr:
            probs.append(("encrypted_file_without_ID", "document was encrypted but the trailer has no /ID"))
    # /Size
    highest = max([max(doc.xref) if doc.xref else 0] + [b for _, b in doc.free_runs])
    size = tr.get(b"Size")
    if not isinstance(size, int) or size != highest + 1:
        probs.append(("Size_not_highest_plus_one", "/Size %r, highest object number in the cross-reference data %d" % (size, highest)))
    # every section: in-use offsets, and object loading (Length, tokens, object streams)
    loaded = {}
    for num, e in sorted((n, e) for n, e in doc.xref.items() if e.kind != "f"):
        try:
            loaded[num] = doc.get(num)
        except PdfError as ex:
            msg = str(ex)
            rule = ("xref_offset_not_at_object" if "no 'N G obj'" in msg or "points at object" in msg else
                    "stream_Length_wrong" if "/Length" in msg else
                    "object_stream_inconsistent" if "object stream" in msg else
                    "bad_token")
            probs.append((rule, "object %d: %s" % (num, msg)))
        except Exception as ex:
            probs.append(("object_unreadable", "object %d: %s: %s" % (num, type(ex).__name__, ex)))
    # dangling references
    defined = {n for n, e in doc.xref.items() if e.kind != "f"}
    dangling = set()
    for num, o in loaded.items():
        acc = []
        refs_in(o, acc)
        for r in acc:
            if r.num not in defined:
                dangling.add((num, r.num))
    trrefs = []
    refs_in({k: v for k, v in tr.items()}, trrefs)
    for r in trrefs:
        if r.num not in defined:
            dangling.add((0, r.num))
    for src, dst in sorted(dangling)[:5]:
        probs.append(("dangling_reference", "object %d refers to undefined or free object %d" % (src, dst)))
    return probs, doc


def selftest():
    from . import pdfgen
    errs = []
    w = pdfgen.Writer()
    w.begin()
    w.put(1, 0, {b"Type": Name(b"Catalog"), b"Pages": Ref(2, 0)})
    w.put(2, 0, {b"Type": Name(b"Pages"), b"Kids": [], b"Count": 0})
    w.end("table", Ref(1, 0), first=True)
    good = w.bytes()
    if validate(good)[0]:
        errs.append(("good file flagged", validate(good)[0]))
    # each rule has a file that breaks only it
    bad_off = good.replace(b"0000000015 00000 n", b"0000000016 00000 n")
    if not any(p[0] == "xref_offset_not_at_object" for p in validate(bad_off)[0]):
        errs.append("offset rule")
    bad_size = good.replace(b"/Size 3", b"/Size 9")
    if not any(p[0] == "Size_not_highest_plus_one" for p in validate(bad_size)[0]):
        errs.append("size rule")
    bad_ref = good.replace(b"/Pages 2 0 R", b"/Pages 7 0 R")
    if not any(p[0] == "dangling_reference" for p in validate(bad_ref)[0]):
        errs.append("dangling rule")
    bad_name = good.replace(b"/Type /Catalog", b"/Ty pe /Catalog")
    if not validate(bad_name)[0]:
        errs.append("token rule")
    return errs
