use oxidize_pdf::parser::objects::{PdfDictionary, PdfName, PdfObject, PdfStream};
use oxidize_pdf::parser::ParseOptions;
fn main() {
    for (bm, w, h) in [(vec![0xFFu8], 8usize, 1usize), (vec![0x00], 8, 1), (vec![0xF0], 8, 1), (vec![0xF0, 0x0F], 8, 2), (vec![0xFF,0xFF,0x00,0x00], 16, 2)] {
        let data = vh::gen::enc::ccitt_g4(&bm, w, h);
        let mut d = PdfDictionary::new();
        d.insert("Filter".into(), PdfObject::Name(PdfName("CCITTFaxDecode".into())));
        let mut p = PdfDictionary::new();
        p.insert("K".into(), PdfObject::Integer(-1));
        p.insert("Columns".into(), PdfObject::Integer(w as i64));
        p.insert("Rows".into(), PdfObject::Integer(h as i64));
        d.insert("DecodeParms".into(), PdfObject::Dictionary(p));
        let s = PdfStream { dict: d, data: data.clone() };
        println!("bitmap {:02x?} enc {:02x?} -> {:02x?}", bm, data, s.decode(&ParseOptions::default()));
    }
}
