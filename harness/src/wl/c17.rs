//! C17 — incremental updates are append-only and take effect.
//! Bases are generated directly as PDF syntax (classic table, or object stream +
//! xref stream): an AcroForm with hierarchical text fields and pages with text-note
//! annotations. Histories of 1-5 edits go through IncrementalFormFiller and
//! IncrementalTextNoteEditor; every revision is kept. The Rust stage records the
//! library's own read-back; pyref/checks/c17.py judges append-only-ness, the
//! revision chain, the edited values and that nothing else changed.
use crate::gen::rawpdf::RawPdf;
use crate::rec::hex;
use crate::{Ctx, Recorder, Rng};
use oxidize_pdf::geometry::Point;
use oxidize_pdf::parser::objects::PdfObject;
use oxidize_pdf::parser::{ParseOptions, PdfReader};
use oxidize_pdf::writer::{IncrementalFormFiller, IncrementalTextNoteEditor, TextNoteMutation};
use serde_json::{json, Value};
use std::io::{Cursor, Write};

const VALUES: &[(&str, &str)] = &[
    ("ascii", "Hello World"),
    ("ascii", "x"),
    ("empty", ""),
    ("delims", "a (b) c \\ d"),
    ("delims", ")unbalanced(("),
    ("latin1", "café Müller"),
    ("cp1252", "price € 5 – “q”"),
    ("bmp", "Жук 中文 テスト"),
    ("astral", "ok 😀 𝒳"),
    ("controls", "line1\nline2\ttab"),
    ("bomlike", "þÿ looks like a BOM"),
    ("long", "0123456789 0123456789 0123456789 0123456789 0123456789 0123456789 0123456789 0123456789 0123456789 0123456789 0123456789 0123456789"),
];

struct Base {
    bytes: Vec<u8>,
    fields: Vec<String>, // fully qualified names
    npages: usize,
}

fn gen_base(r: &mut Rng) -> (Base, &'static str) {
    let mut pdf = RawPdf::new();
    let catalog = pdf.reserve();
    let pages = pdf.reserve();
    let font = pdf.add("<< /Type /Font /Subtype /Type1 /BaseFont /Helvetica /Encoding /WinAnsiEncoding >>");
    let acro = pdf.reserve();
    let npages = r.urange(1, 3);
    let mut page_ids = Vec::new();
    let mut annots: Vec<Vec<u32>> = vec![Vec::new(); npages];
    for _ in 0..npages {
        page_ids.push(pdf.reserve());
    }
    // fields: some top-level, some under a non-terminal parent ("address.street")
    let mut fields = Vec::new();
    let mut top: Vec<u32> = Vec::new();
    let ntop = r.urange(1, 3);
    for i in 0..ntop {
        let pg = r.usize_below(npages);
        let name = format!("f{i}");
        let w = pdf.add(format!(
            "<< /Type /Annot /Subtype /Widget /FT /Tx /T ({name}) /V (initial{i}) /DA (/Helv 10 Tf 0 g) /Rect [50 {} 250 {}] /P {} 0 R /F 4 >>",
            600 - 40 * i,
            620 - 40 * i,
            page_ids[pg]
        ));
        annots[pg].push(w);
        top.push(w);
        fields.push(name);
    }
    if r.bool() {
        let parent = pdf.reserve();
        let mut kids = Vec::new();
        for k in ["street", "city"] {
            let pg = r.usize_below(npages);
            let w = pdf.add(format!(
                "<< /Type /Annot /Subtype /Widget /FT /Tx /T ({k}) /Parent {parent} 0 R /V (old {k}) /DA (/Helv 10 Tf 0 g) /Rect [50 {} 250 {}] /P {} 0 R /F 4 >>",
                300 + kids.len() * 40,
                320 + kids.len() * 40,
                page_ids[pg]
            ));
            annots[pg].push(w);
            kids.push(w);
            fields.push(format!("address.{k}"));
        }
        pdf.set(parent, format!("<< /T (address) /Kids [{}] >>", kids.iter().map(|k| format!("{k} 0 R")).collect::<Vec<_>>().join(" ")).into_bytes());
        top.push(parent);
    }
    // pre-existing text notes
    for pg in 0..npages {
        for k in 0..r.urange(0, 2) {
            let a = pdf.add(format!("<< /Type /Annot /Subtype /Text /Rect [{} {} {} {}] /Contents (note p{pg} n{k}) /Name /Note /P {} 0 R >>", 300 + 30 * k, 700, 320 + 30 * k, 720, page_ids[pg]));
            annots[pg].push(a);
        }
    }
    // a bystander: an object no edit may touch
    let by = pdf.add_stream("", b"BT /F1 12 Tf 50 750 Td (bystander content) Tj ET");
    for (i, p) in page_ids.iter().enumerate() {
        let an = if annots[i].is_empty() && r.bool() { String::new() } else { format!("/Annots [{}]", annots[i].iter().map(|a| format!("{a} 0 R")).collect::<Vec<_>>().join(" ")) };
        pdf.set(*p, format!("<< /Type /Page /Parent {pages} 0 R /MediaBox [0 0 612 792] /Resources << /Font << /F1 {font} 0 R >> >> /Contents {by} 0 R {an} >>").into_bytes());
    }
    pdf.set(acro, format!("<< /Fields [{}] /DA (/Helv 10 Tf 0 g) /DR << /Font << /Helv {font} 0 R >> >> >>", top.iter().map(|k| format!("{k} 0 R")).collect::<Vec<_>>().join(" ")).into_bytes());
    pdf.set(pages, format!("<< /Type /Pages /Kids [{}] /Count {npages} >>", page_ids.iter().map(|k| format!("{k} 0 R")).collect::<Vec<_>>().join(" ")).into_bytes());
    pdf.set(catalog, format!("<< /Type /Catalog /Pages {pages} 0 R /AcroForm {acro} 0 R >>").into_bytes());
    let compressed = r.chance(1, 3);
    let mut bytes = if compressed { pdf.finish_compressed(catalog) } else { pdf.finish(catalog) };
    // what follows the last %%EOF varies between producers: nothing, LF, CR LF, a blank line, padding
    if bytes.ends_with(b"\n") {
        bytes.pop();
    }
    bytes.extend_from_slice(*r.pick(&[&b"\n"[..], b"\n", b"", b"\r\n", b"\r", b"\n\n", b" \n"]));
    (Base { bytes, fields, npages }, if compressed { "objstm_xrefstream" } else { "classic" })
}

/// the library's own view of a field's /V: (raw bytes hex, to_text)
fn lib_field_value(bytes: &[u8], fq: &str) -> Result<Value, String> {
    let mut reader = PdfReader::new_with_options(Cursor::new(bytes.to_vec()), ParseOptions::default()).map_err(|e| format!("open: {e}"))?;
    let cat = reader.catalog().map_err(|e| format!("catalog: {e}"))?.clone();
    let mut get = |o: &PdfObject| -> Result<PdfObject, String> {
        match o {
            PdfObject::Reference(n, g) => reader.get_object(*n, *g).map(|x| x.clone()).map_err(|e| format!("resolve {n} {g}: {e}")),
            other => Ok(other.clone()),
        }
    };
    let acro = get(cat.get("AcroForm").ok_or("no AcroForm")?)?;
    let mut kids = get(acro.as_dict().ok_or("AcroForm not dict")?.get("Fields").ok_or("no Fields")?)?;
    let mut found: Option<PdfObject> = None;
    for part in fq.split('.') {
        let arr = kids.as_array().ok_or("kids not array")?.0.clone();
        let mut next = None;
        for k in arr {
            let d = get(&k)?;
            let dd = d.as_dict().ok_or("field not dict")?;
            let t = match dd.get("T") {
                Some(PdfObject::String(s)) => String::from_utf8_lossy(s.as_bytes()).to_string(),
                _ => String::new(),
            };
            if t == part {
                next = Some(d.clone());
                break;
            }
        }
        let d = next.ok_or_else(|| format!("field part {part} not found"))?;
        kids = match d.as_dict().and_then(|x| x.get("Kids")) {
            Some(k) => get(k)?,
            None => PdfObject::Null,
        };
        found = Some(d);
    }
    let d = found.ok_or("not found")?;
    match d.as_dict().and_then(|x| x.get("V")) {
        Some(v) => match get(v)? {
            PdfObject::String(s) => Ok(json!({"raw_hex": hex(s.as_bytes()), "text": s.to_text()})),
            other => Ok(json!({"other": format!("{other:?}")})),
        },
        None => Ok(json!({"absent": true})),
    }
}

pub fn run(ctx: &Ctx, rec: &mut Recorder) -> Result<(), String> {
    let dir = ctx.out.join("cases");
    std::fs::create_dir_all(&dir).map_err(|e| e.to_string())?;
    let mut f = std::io::BufWriter::new(std::fs::File::create(dir.join(format!("cases-{}.jsonl", ctx.shard))).map_err(|e| e.to_string())?);
    let ncases = ctx.qt(1_200u64, 40_000u64);
    for c in 0..ncases {
        if !ctx.mine(c) {
            continue;
        }
        let mut r = Rng::derive(ctx.seed, 17, c);
        let (base, layout) = gen_base(&mut r);
        rec.evaluations += 1;
        rec.set_add("base_layouts", layout);
        let mut cur = base.bytes.clone();
        let mut revs = vec![format!("h{c}r0.pdf")];
        crate::rec::write_file(&dir.join(&revs[0]), &cur);
        let mut edits: Vec<Value> = Vec::new();
        // the model: current field values and notes
        let nedits = r.urange(1, 5);
        let mut aborted = false;
        for e in 0..nedits {
            let kind = r.below(5);
            let mut ed = json!({"n": e});
            let result: Result<Vec<u8>, String> = if kind <= 1 {
                // fill / fill_many
                let k = if kind == 0 { 1 } else { r.urange(1, base.fields.len()) };
                let mut names: Vec<String> = base.fields.clone();
                r.shuffle(&mut names);
                names.truncate(k);
                let vals: Vec<(String, &str, &str)> = names.iter().map(|n| { let (cls, v) = *r.pick(VALUES); (n.clone(), cls, v) }).collect();
                ed["kind"] = json!(if kind == 0 { "fill" } else { "fill_many" });
                ed["fields"] = json!(vals.iter().map(|(n, cls, v)| json!({"name": n, "class": cls, "value": v})).collect::<Vec<_>>());
                for (_, cls, _) in &vals {
                    rec.set_add("value_classes", *cls);
                }
                let pairs: Vec<(&str, &str)> = vals.iter().map(|(n, _, v)| (n.as_str(), *v)).collect();
                let cur2 = cur.clone();
                match crate::mon::guarded(|| if kind == 0 { IncrementalFormFiller::new(&cur2).fill(pairs[0].0, pairs[0].1) } else { IncrementalFormFiller::new(&cur2).fill_many(&pairs) }) {
                    Ok(Ok(b)) => Ok(b),
                    Ok(Err(e)) => Err(e.to_string()),
                    Err(p) => Err(format!("PANIC {} :: {}", p.site(), p.message)),
                }
            } else {
                // notes: add / update / remove
                let cur2 = cur.clone();
                let existing = crate::mon::guarded(|| IncrementalTextNoteEditor::new(&cur2).notes());
                let existing = match existing {
                    Ok(Ok(n)) => n,
                    Ok(Err(e)) => {
                        ed["kind"] = json!("notes");
                        ed["error"] = json!(format!("notes(): {e}"));
                        edits.push(ed);
                        aborted = true;
                        break;
                    }
                    Err(p) => {
                        rec.violation(format!("C17|notes|panic|{}", p.site()), p.message.clone(), json!({"case": c, "seed": ctx.seed, "base_hex": hex(&cur)}));
                        aborted = true;
                        break;
                    }
                };
                ed["notes_before"] = json!(existing.iter().map(|n| json!({"obj": n.id.object_number, "page": n.page_index, "contents": n.contents, "pos": [n.position.x, n.position.y]})).collect::<Vec<_>>());
                let mut muts = Vec::new();
                let mut mj = Vec::new();
                let mut touched = std::collections::HashSet::new();
                for _ in 0..r.urange(1, 3) {
                    let (cls, v) = *r.pick(VALUES);
                    match r.below(3) {
                        0 => {
                            let page = r.usize_below(base.npages) as u32;
                            let pos = (50.0 + r.below(400) as f64, 50.0 + r.below(600) as f64);
                            muts.push(TextNoteMutation::Add { page_index: page, position: Point::new(pos.0, pos.1), contents: v.to_string() });
                            mj.push(json!({"add": {"page": page, "pos": [pos.0, pos.1], "contents": v, "class": cls}}));
                        }
                        1 if !existing.is_empty() => {
                            let n = r.pick(&existing);
                            if !touched.insert(n.id.object_number) {
                                continue;
                            }
                            let pos = (60.0 + r.below(400) as f64, 60.0 + r.below(600) as f64);
                            muts.push(TextNoteMutation::Update { id: n.id, position: Point::new(pos.0, pos.1), contents: v.to_string() });
                            mj.push(json!({"update": {"obj": n.id.object_number, "pos": [pos.0, pos.1], "contents": v, "class": cls}}));
                        }
                        2 if !existing.is_empty() => {
                            let n = r.pick(&existing);
                            if !touched.insert(n.id.object_number) {
                                continue;
                            }
                            muts.push(TextNoteMutation::Remove { id: n.id });
                            mj.push(json!({"remove": {"obj": n.id.object_number}}));
                        }
                        _ => {}
                    }
                    rec.set_add("value_classes", cls);
                }
                if muts.is_empty() {
                    continue;
                }
                ed["kind"] = json!("notes");
                ed["mutations"] = json!(mj);
                let cur3 = cur.clone();
                match crate::mon::guarded(|| IncrementalTextNoteEditor::new(&cur3).apply(&muts)) {
                    Ok(Ok(u)) => {
                        ed["added"] = json!(u.added_notes.iter().map(|n| json!({"obj": n.id.object_number, "page": n.page_index})).collect::<Vec<_>>());
                        Ok(u.pdf_bytes)
                    }
                    Ok(Err(e)) => Err(e.to_string()),
                    Err(p) => Err(format!("PANIC {} :: {}", p.site(), p.message)),
                }
            };
            match result {
                Ok(newb) => {
                    let name = format!("h{c}r{}.pdf", revs.len());
                    crate::rec::write_file(&dir.join(&name), &newb);
                    ed["rev"] = json!(name);
                    // the library's own read-back
                    if let Some(fs) = ed.get("fields").and_then(|x| x.as_array()).cloned() {
                        let mut lv = Vec::new();
                        for fd in fs {
                            let nm = fd["name"].as_str().unwrap_or("").to_string();
                            let nb = newb.clone();
                            lv.push(match crate::mon::guarded(|| lib_field_value(&nb, &nm)) {
                                Ok(Ok(v)) => v,
                                Ok(Err(e)) => json!({"err": e}),
                                Err(p) => json!({"panic": format!("{} {}", p.site(), p.message)}),
                            });
                        }
                        ed["lib_values"] = json!(lv);
                    } else {
                        let nb = newb.clone();
                        ed["lib_notes_after"] = match crate::mon::guarded(|| IncrementalTextNoteEditor::new(&nb).notes()) {
                            Ok(Ok(ns)) => json!(ns.iter().map(|n| json!({"obj": n.id.object_number, "page": n.page_index, "contents": n.contents, "pos": [n.position.x, n.position.y]})).collect::<Vec<_>>()),
                            Ok(Err(e)) => json!({"err": e.to_string()}),
                            Err(p) => json!({"panic": format!("{} {}", p.site(), p.message)}),
                        };
                    }
                    revs.push(name);
                    cur = newb;
                    rec.count(&format!("edits.{}", ed["kind"].as_str().unwrap_or("?")));
                    edits.push(ed);
                }
                Err(e) => {
                    if let Some(site) = e.strip_prefix("PANIC ") {
                        rec.violation(format!("C17|{}|panic|{}", ed["kind"].as_str().unwrap_or("?"), site.split(" :: ").next().unwrap_or("")), e.clone(), json!({"case": c, "seed": ctx.seed, "edit": ed, "base_hex": hex(&cur)}));
                    }
                    ed["error"] = json!(e);
                    edits.push(ed);
                    aborted = true;
                    break;
                }
            }
        }
        let _ = aborted;
        writeln!(f, "{}", json!({"id": format!("c17-{c}"), "case": c, "seed": ctx.seed, "layout": layout, "base": revs[0], "fields": base.fields, "npages": base.npages, "edits": edits})).ok();
        rec.case(format!("{c}").as_bytes(), edits.iter().any(|e| e.get("rev").is_some()));
    }
    Ok(())
}
