//! docgen — authoring programs: seeded sequences of public-API calls that
//! build a `Document`, together with the model of what each call must make
//! observable. A program is plain data (JSON) so that a violation's replay
//! file *is* the program.
use crate::Rng;
use chrono::TimeZone;
use oxidize_pdf::annotations::{Annotation, AnnotationType};
use oxidize_pdf::geometry::{Point, Rectangle};
use oxidize_pdf::graphics::{Color, ColorSpace, Image};
use oxidize_pdf::structure::{Destination, NamedDestinations, OutlineBuilder, OutlineItem, PageDestination};
use oxidize_pdf::text::Font;
use oxidize_pdf::writer::WriterConfig;
use oxidize_pdf::{Document, Page};
use serde_json::{json, Value};

pub const FONTS: [(&str, Font); 8] = [
    ("Helvetica", Font::Helvetica),
    ("HelveticaBold", Font::HelveticaBold),
    ("TimesRoman", Font::TimesRoman),
    ("TimesItalic", Font::TimesItalic),
    ("Courier", Font::Courier),
    ("CourierBold", Font::CourierBold),
    ("HelveticaOblique", Font::HelveticaOblique),
    ("TimesBold", Font::TimesBold),
];

/// The writer-configuration lattice: 2 x 2 x 2 x 4 = 32 points.
pub fn configs() -> Vec<(String, WriterConfig)> {
    let mut v = Vec::new();
    for xs in [false, true] {
        for os in [false, true] {
            for cs in [false, true] {
                for ver in ["1.4", "1.5", "1.7", "2.0"] {
                    v.push((
                        format!("xref_stream={}|obj_streams={}|compress={}|v{}", xs as u8, os as u8, cs as u8, ver),
                        WriterConfig { use_xref_streams: xs, use_object_streams: os, pdf_version: ver.to_string(), compress_streams: cs, incremental_update: false },
                    ));
                }
            }
        }
    }
    v
}

pub fn config_by_name(name: &str) -> Option<WriterConfig> {
    configs().into_iter().find(|c| c.0 == name).map(|c| c.1)
}

/// Text pools. `hostile` adds PDF delimiters, escapes and non-ASCII.
pub fn gen_text(r: &mut Rng, class: &str, tag: &str) -> String {
    let base = format!("{tag}{:05}", r.below(100000));
    match class {
        "ascii" => base,
        "delims" => format!("{base} (a) [b] <c> {{d}} /e %f #g \\h )("),
        "latin1" => format!("{base} Año café ü ß ¿"),
        "cp1252" => format!("{base} € “q” – — … ‰ Š"),
        // the second form has code units whose bytes are ( ) \ CR when written as UTF-16BE
        "bmp" => if r.bool() { format!("{base} Ωμέγα привет 漢字") } else { format!("{base} Tupĩ Ĩ Ŝ č 小心") },
        // astral characters at the ends of the surrogate ranges: U+10000 (D800 DC00), U+103FF and
        // U+1F3FF (low surrogate DFFF), U+10FFFF (DBFF DFFF)
        "astral" => match r.below(3) {
            0 => format!("{base} 😀𝄞"),
            1 => format!("{base} \u{10000}\u{103FF}👍\u{1F3FF}"),
            _ => format!("{base} \u{10FFFF}\u{1FFFF}x\u{2FFFF}"),
        },
        "controls" => format!("{base}\tT\nN\rR"),
        "bomlike" => format!("þÿ{base}"),
        _ => base,
    }
}

/// Generate a program (plain JSON).
pub fn gen_program(r: &mut Rng, rich: bool, text_classes: &[&str]) -> Value {
    // one program in twelve is long (more than a hundred non-stream objects: several object streams)
    let long_doc = r.chance(1, 12);
    let npages = if long_doc { r.urange(100, 140) } else if r.chance(1, 4) { 1 } else { r.urange(2, 6) };
    // one program in three gives every page's picture the same resource name and geometry (different samples)
    let shared_image = r.chance(1, 3);
    let shared_kind = *r.pick(&["rgb", "gray", "rgba"]);
    let long_names = r.chance(1, 3);
    let mut pages = Vec::new();
    for pi in 0..npages {
        let (w, h) = *r.pick(&[(595.0, 842.0), (612.0, 792.0), (300.5, 400.25), (200.0, 200.0), (841.89, 595.28)]);
        let rot = *r.pick(&[0, 0, 0, 90, 180, 270]);
        let mut steps = Vec::new();
        let nsteps = if long_doc { r.urange(1, 3) } else { r.urange(3, 30) };
        let mut depth = 0;
        for _ in 0..nsteps {
            let x = (r.below(50000) as f64) / 100.0;
            let y = (r.below(70000) as f64) / 100.0;
            let s = match r.below(14) {
                0 => json!({"op": "rect", "a": [x, y, 10.0 + x / 7.0, 20.5]}),
                1 => json!({"op": "line", "a": [x, y, x + 33.25, y + 1.5]}),
                2 => json!({"op": "curve", "a": [x, y, x + 10.0, y + 20.0, x + 30.0, y - 5.0, x + 40.0, y]}),
                3 => json!({"op": "fill_rgb", "a": [r.below(101) as f64 / 100.0, r.below(101) as f64 / 100.0, r.below(101) as f64 / 100.0]}),
                4 => json!({"op": "stroke_gray", "a": [r.below(101) as f64 / 100.0]}),
                5 => json!({"op": "line_width", "a": [0.25 + r.below(40) as f64 / 4.0]}),
                6 => {
                    depth += 1;
                    json!({"op": "save"})
                }
                7 if depth > 0 => {
                    depth -= 1;
                    json!({"op": "restore"})
                }
                8 => json!({"op": "translate", "a": [x / 10.0, y / 10.0]}),
                9 => json!({"op": "fill_cmyk", "a": [0.1, 0.2, 0.3, r.below(101) as f64 / 100.0]}),
                10 => json!({"op": "circle", "a": [x, y, 5.0 + x / 20.0]}),
                11 if rich => json!({"op": "opacity", "a": [(1 + r.below(9)) as f64 / 10.0]}),
                _ => {
                    let cls = *r.pick(text_classes);
                    // content text goes through WinAnsi: keep to classes the encoding can carry
                    let cls = if matches!(cls, "bmp" | "astral" | "controls" | "bomlike") { "latin1" } else { cls };
                    json!({"op": "text", "font": r.usize_below(FONTS.len()), "size": 6.0 + r.below(30) as f64 / 2.0, "x": x, "y": y, "text": gen_text(r, cls, &format!("P{pi}W"))})
                }
            };
            steps.push(s);
        }
        for _ in 0..depth {
            steps.push(json!({"op": "restore"}));
        }
        let mut images = Vec::new();
        if rich && shared_image && (!long_doc || pi % 10 == 0) {
            let (iw, ih) = (4u32, 3u32);
            let n = match shared_kind {
                "rgb" => 3,
                "gray" => 1,
                _ => 4,
            } * (iw * ih) as usize;
            images.push(json!({"name": "Chart", "kind": shared_kind, "w": iw, "h": ih, "data": crate::rec::hex(&r.bytes(n)), "at": [10.0, 20.0, 40.0, 30.0]}));
        } else if rich && !long_doc && r.chance(1, 2) {
            for ii in 0..(if long_names { r.urange(2, 3) } else { r.urange(1, 2) }) {
                let (iw, ih) = (r.urange(1, 9) as u32, r.urange(1, 7) as u32);
                let kind = *r.pick(&["rgb", "gray", "rgba"]);
                let n = match kind {
                    "rgb" => 3,
                    "gray" => 1,
                    _ => 4,
                } * (iw * ih) as usize;
                // long names with a common prefix of more than 16 bytes in some programs (orderings that look
                // at a prefix of the key only cannot tell them apart)
                let name = if long_names { format!("FigureResourceNumber_{pi}_{}", ["alpha", "beta", "gamma"][ii % 3]) } else { format!("Im{pi}x{ii}") };
                images.push(json!({"name": name, "kind": kind, "w": iw, "h": ih, "data": crate::rec::hex(&r.bytes(n)),
                    "at": [10.0 + ii as f64 * 50.0, 20.0, 40.0, 30.0]}));
            }
        }
        let mut annots = Vec::new();
        if rich && !long_doc && r.chance(1, 2) {
            for _ in 0..r.urange(1, 3) {
                let cls = *r.pick(text_classes);
                annots.push(json!({"kind": *r.pick(&["Text", "Square", "Highlight"]), "rect": [10.0, 10.0 + r.below(500) as f64, 60.0, 30.0],
                    "contents": gen_text(r, cls, &format!("P{pi}ANNOT")), "cls": cls}));
            }
        }
        pages.push(json!({"w": w, "h": h, "rot": rot, "steps": steps, "images": images, "annots": annots}));
    }
    let mut meta = serde_json::Map::new();
    for k in ["title", "author", "subject", "keywords", "creator", "producer"] {
        if r.chance(2, 3) {
            let cls = *r.pick(text_classes);
            meta.insert(k.to_string(), json!({"text": gen_text(r, cls, &k.to_uppercase()), "cls": cls}));
        }
    }
    // outline forest
    let mut outline = Vec::new();
    if rich && r.chance(2, 3) {
        fn item(r: &mut Rng, depth: usize, npages: usize, classes: &[&str], counter: &mut usize) -> Value {
            let mut kids = Vec::new();
            if depth < 3 {
                let n = if r.chance(1, 2) { 0 } else { r.urange(1, 4) };
                for _ in 0..n {
                    kids.push(item(r, depth + 1, npages, classes, counter));
                }
            }
            *counter += 1;
            let cls = *r.pick(classes);
            json!({"title": gen_text(r, cls, &format!("OUT{}", *counter)), "cls": cls, "page": r.usize_below(npages), "closed": r.chance(1, 3),
                "dest": *r.pick(&["fit", "xyz", "fith", "fitv", "fitb"]), "kids": kids})
        }
        let mut counter = 0;
        for _ in 0..r.urange(1, 4) {
            outline.push(item(r, 0, npages, text_classes, &mut counter));
        }
    }
    let mut named = Vec::new();
    if rich && r.chance(1, 2) {
        for i in 0..r.urange(1, 12) {
            named.push(json!({"name": format!("dest-{i:03}-{}", r.below(1000)), "page": r.usize_below(npages)}));
        }
    }
    json!({"pages": pages, "meta": meta, "outline": outline, "named": named})
}

fn color_of(a: &Value) -> Vec<f64> {
    a.as_array().map(|v| v.iter().map(|x| x.as_f64().unwrap_or(0.0)).collect()).unwrap_or_default()
}

fn dest_of(kind: &str, page: usize) -> Destination {
    let p = PageDestination::PageNumber(page as u32);
    match kind {
        "xyz" => Destination::xyz(p, Some(10.0), Some(700.0), None),
        "fith" => Destination::fit_h(p, Some(500.0)),
        "fitv" => Destination::fit_v(p, Some(20.0)),
        "fitb" => Destination::fit_b(p),
        _ => Destination::fit(p),
    }
}

fn outline_item(v: &Value) -> OutlineItem {
    let mut it = OutlineItem::new(v["title"].as_str().unwrap_or(""))
        .with_destination(dest_of(v["dest"].as_str().unwrap_or("fit"), v["page"].as_u64().unwrap_or(0) as usize));
    if v["closed"].as_bool().unwrap_or(false) {
        it = it.closed();
    }
    for k in v["kids"].as_array().cloned().unwrap_or_default() {
        it.add_child(outline_item(&k));
    }
    it
}

pub struct Built {
    pub doc: Document,
    /// per page: the content stream bytes the page generates in memory (H5)
    pub page_contents: Vec<Vec<u8>>,
    pub errors: Vec<String>,
}

/// Execute a program through the public API.
pub fn build(prog: &Value) -> Built {
    let mut doc = Document::new();
    let mut errors = Vec::new();
    let fixed = chrono::Utc.with_ymd_and_hms(2024, 1, 2, 3, 4, 5).unwrap();
    doc.set_creation_date(fixed);
    doc.set_modification_date(fixed);
    if let Some(m) = prog["meta"].as_object() {
        for (k, v) in m {
            let t = v["text"].as_str().unwrap_or("").to_string();
            match k.as_str() {
                "title" => doc.set_title(t),
                "author" => doc.set_author(t),
                "subject" => doc.set_subject(t),
                "keywords" => doc.set_keywords(t),
                "creator" => doc.set_creator(t),
                "producer" => doc.set_producer(t),
                _ => {}
            }
        }
    }
    let mut page_contents = Vec::new();
    for p in prog["pages"].as_array().cloned().unwrap_or_default() {
        let mut page = Page::new(p["w"].as_f64().unwrap_or(612.0), p["h"].as_f64().unwrap_or(792.0));
        let rot = p["rot"].as_i64().unwrap_or(0) as i32;
        if rot != 0 {
            page.set_rotation(rot);
        }
        for im in p["images"].as_array().cloned().unwrap_or_default() {
            let (w, h) = (im["w"].as_u64().unwrap_or(1) as u32, im["h"].as_u64().unwrap_or(1) as u32);
            let data = crate::rec::unhex(im["data"].as_str().unwrap_or(""));
            let img = match im["kind"].as_str().unwrap_or("rgb") {
                "gray" => Image::from_gray_data(data, w, h),
                "rgba" => Image::from_rgba_data(data, w, h),
                _ => Ok(Image::from_raw_data(data, w, h, ColorSpace::DeviceRGB, 8)),
            };
            match img {
                Ok(i) => page.add_image(im["name"].as_str().unwrap_or("Im"), i),
                Err(e) => errors.push(format!("image: {e}")),
            }
        }
        for s in p["steps"].as_array().cloned().unwrap_or_default() {
            let a = color_of(&s["a"]);
            match s["op"].as_str().unwrap_or("") {
                "rect" => {
                    page.graphics().rect(a[0], a[1], a[2], a[3]).fill();
                }
                "line" => {
                    page.graphics().move_to(a[0], a[1]).line_to(a[2], a[3]).stroke();
                }
                "curve" => {
                    page.graphics().move_to(a[0], a[1]).curve_to(a[2], a[3], a[4], a[5], a[6], a[7]).stroke();
                }
                "fill_rgb" => {
                    page.graphics().set_fill_color(Color::rgb(a[0], a[1], a[2]));
                }
                "fill_cmyk" => {
                    page.graphics().set_fill_color(Color::Cmyk(a[0], a[1], a[2], a[3]));
                }
                "stroke_gray" => {
                    page.graphics().set_stroke_color(Color::Gray(a[0]));
                }
                "line_width" => {
                    page.graphics().set_line_width(a[0]);
                }
                "save" => {
                    page.graphics().save_state();
                }
                "restore" => {
                    page.graphics().restore_state();
                }
                "translate" => {
                    page.graphics().translate(a[0], a[1]);
                }
                "circle" => {
                    page.graphics().circle(a[0], a[1], a[2]).fill_stroke();
                }
                "opacity" => {
                    page.graphics().set_opacity(a[0]);
                }
                "text" => {
                    let f = FONTS[s["font"].as_u64().unwrap_or(0) as usize % FONTS.len()].1.clone();
                    let r = page
                        .text()
                        .set_font(f, s["size"].as_f64().unwrap_or(12.0))
                        .at(s["x"].as_f64().unwrap_or(0.0), s["y"].as_f64().unwrap_or(0.0))
                        .write(s["text"].as_str().unwrap_or(""))
                        .map(|_| ());
                    if let Err(e) = r {
                        errors.push(format!("text: {e}"));
                    }
                }
                _ => {}
            }
        }
        for im in p["images"].as_array().cloned().unwrap_or_default() {
            let at = color_of(&im["at"]);
            if let Err(e) = page.draw_image(im["name"].as_str().unwrap_or("Im"), at[0], at[1], at[2], at[3]) {
                errors.push(format!("draw_image: {e}"));
            }
        }
        for an in p["annots"].as_array().cloned().unwrap_or_default() {
            let rc = color_of(&an["rect"]);
            let t = match an["kind"].as_str().unwrap_or("Text") {
                "Square" => AnnotationType::Square,
                "Highlight" => AnnotationType::Highlight,
                _ => AnnotationType::Text,
            };
            let rect = Rectangle::new(Point::new(rc[0], rc[1]), Point::new(rc[0] + rc[2], rc[1] + rc[3]));
            page.add_annotation(Annotation::new(t, rect).with_contents(an["contents"].as_str().unwrap_or("")));
        }
        match page.verif_generate_content() {
            Ok(c) => page_contents.push(c),
            Err(e) => {
                errors.push(format!("generate_content: {e}"));
                page_contents.push(Vec::new());
            }
        }
        doc.add_page(page);
    }
    if let Some(items) = prog["outline"].as_array() {
        if !items.is_empty() {
            let mut b = OutlineBuilder::new();
            for it in items {
                b.add_item(outline_item(it));
            }
            doc.set_outline(b.build());
        }
    }
    if let Some(named) = prog["named"].as_array() {
        if !named.is_empty() {
            let mut nd = NamedDestinations::new();
            for n in named {
                nd.add_destination(n["name"].as_str().unwrap_or("").to_string(), Destination::fit(PageDestination::PageNumber(n["page"].as_u64().unwrap_or(0) as u32)).to_array());
            }
            doc.set_named_destinations(nd);
        }
    }
    Built { doc, page_contents, errors }
}

/// Serialise directly through `PdfWriter::write_document` (no `Utc::now()` on that path).
pub fn write(doc: &mut Document, cfg: WriterConfig) -> Result<Vec<u8>, String> {
    let mut buf = Vec::new();
    {
        let mut w = oxidize_pdf::writer::PdfWriter::with_config(&mut buf, cfg);
        w.write_document(doc).map_err(|e| e.to_string())?;
    }
    Ok(buf)
}
