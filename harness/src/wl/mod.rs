//! One workload per property. Each returns a process exit code (0 = ran;
//! verdicts are in the shard file, decided by the driver).
use crate::{Ctx, Recorder};

pub mod c01;
pub mod c07;
pub mod c08;
pub mod c09;
pub mod c20;
pub mod c21;
pub mod c22;
pub mod c23;
pub mod c24;
pub mod c25;
pub mod c11;
pub mod c14;
pub mod c15;
pub mod c16;
pub mod c17;
pub mod c26;
pub mod c27;
pub mod c30;
pub mod c29;
pub mod c29_core;
pub mod doc;
pub mod fnt;
pub mod obs;

pub fn dispatch(ctx: &Ctx) -> i32 {
    let mut rec = Recorder::new();
    let r = match ctx.id.as_str() {
        "DOC" => doc::run(ctx, &mut rec),
        "FNT" => fnt::run(ctx, &mut rec),
        "OBS" => obs::run(ctx, &mut rec),
        "C01" => c01::run(ctx, &mut rec),
        "C07" => c07::run(ctx, &mut rec),
        "C08" => c08::run(ctx, &mut rec),
        "C09" => c09::run(ctx, &mut rec),
        "C20" => c20::run(ctx, &mut rec),
        "C21" => c21::run(ctx, &mut rec),
        "C22" => c22::run(ctx, &mut rec),
        "C23" => c23::run(ctx, &mut rec),
        "C24" => c24::run(ctx, &mut rec),
        "C25" => c25::run(ctx, &mut rec),
        "C11" => c11::run(ctx, &mut rec),
        "C14" => c14::run(ctx, &mut rec),
        "C15" => c15::run(ctx, &mut rec),
        "C16" => c16::run(ctx, &mut rec),
        "C17" => c17::run(ctx, &mut rec),
        "C26" => c26::run(ctx, &mut rec),
        "C27" => c27::run(ctx, &mut rec),
        "C30" => c30::run(ctx, &mut rec),
        "C29" => c29::run(ctx, &mut rec),
        other => {
            eprintln!("no workload for {other}");
            return 2;
        }
    };
    if let Err(e) = r {
        eprintln!("workload error: {e}");
        rec.extra
            .insert("harness_error".into(), serde_json::json!(e));
    }
    if let Err(e) = rec.write(ctx) {
        eprintln!("cannot write shard file: {e}");
        return 2;
    }
    0
}
