//! Reference *encoders* for the stream filters (independent of the library's
//! decoders): zlib via flate2's encoder, LZW via weezl and an own encoder
//! (cross-checked against weezl), ASCII85, ASCIIHex, RunLength, CCITT G4 via
//! the `fax` crate, PNG and TIFF predictors.
use crate::Rng;
use std::io::Write;

pub fn flate(data: &[u8], level: u32) -> Vec<u8> {
    let mut e = flate2::write::ZlibEncoder::new(Vec::new(), flate2::Compression::new(level));
    e.write_all(data).unwrap();
    e.finish().unwrap()
}

pub fn lzw_weezl(data: &[u8], early_change: bool) -> Vec<u8> {
    use weezl::{encode::Encoder, BitOrder};
    let mut enc = if early_change {
        Encoder::with_tiff_size_switch(BitOrder::Msb, 8)
    } else {
        Encoder::new(BitOrder::Msb, 8)
    };
    enc.encode(data).unwrap()
}

struct BitW {
    out: Vec<u8>,
    acc: u32,
    n: u32,
}
impl BitW {
    fn put(&mut self, code: u32, width: u32) {
        self.acc = (self.acc << width) | code;
        self.n += width;
        while self.n >= 8 {
            self.out.push((self.acc >> (self.n - 8)) as u8);
            self.n -= 8;
            self.acc &= (1 << self.n) - 1;
        }
    }
    fn finish(mut self) -> Vec<u8> {
        if self.n > 0 {
            self.out.push((self.acc << (8 - self.n)) as u8);
        }
        self.out
    }
}

/// Own LZW encoder (MSB first, 9..12 bits). `clear_at`: extra Clear codes are
/// emitted when the input position is in this list. The table is reset well
/// before it is full (at 4093 entries), which every conforming decoder accepts.
pub fn lzw_own(data: &[u8], early_change: bool, clear_at: &[usize]) -> Vec<u8> {
    use std::collections::HashMap;
    let early = if early_change { 1 } else { 0 };
    let mut w = BitW { out: Vec::new(), acc: 0, n: 0 };
    let mut dict: HashMap<(u32, u8), u32> = HashMap::new();
    let mut next = 258u32;
    let mut width = 9u32;
    w.put(256, width);
    let mut cur: Option<u32> = None;
    for (pos, &c) in data.iter().enumerate() {
        if clear_at.contains(&pos) {
            if let Some(code) = cur.take() {
                w.put(code, width);
                // a decoder adds an entry for this code too: mirror its width schedule
                next += 1;
                if next + early == (1 << width) + 1 && width < 12 {
                    width += 1;
                }
            }
            w.put(256, width);
            dict.clear();
            next = 258;
            width = 9;
        }
        match cur {
            None => cur = Some(c as u32),
            Some(p) => {
                if let Some(&code) = dict.get(&(p, c)) {
                    cur = Some(code);
                } else {
                    w.put(p, width);
                    dict.insert((p, c), next);
                    next += 1;
                    if next + early == (1 << width) + 1 && width < 12 {
                        width += 1;
                    }
                    cur = Some(c as u32);
                    if next >= 4093 {
                        w.put(256, width);
                        dict.clear();
                        next = 258;
                        width = 9;
                    }
                }
            }
        }
    }
    if let Some(code) = cur {
        w.put(code, width);
        next += 1;
        if next + early == (1 << width) + 1 && width < 12 {
            width += 1;
        }
    }
    w.put(257, width);
    w.finish()
}

const WS: [u8; 6] = [0, 9, 10, 12, 13, 32];

pub fn ascii85(data: &[u8], r: &mut Rng, whitespace: bool, use_z: bool) -> Vec<u8> {
    let mut out = Vec::new();
    let ws = |out: &mut Vec<u8>, r: &mut Rng| {
        if whitespace && r.chance(1, 6) {
            out.push(*r.pick(&WS));
        }
    };
    for chunk in data.chunks(4) {
        let mut v: u32 = 0;
        for i in 0..4 {
            v = (v << 8) | *chunk.get(i).unwrap_or(&0) as u32;
        }
        if chunk.len() == 4 && v == 0 && use_z {
            out.push(b'z');
            ws(&mut out, r);
            continue;
        }
        let mut d = [0u8; 5];
        let mut x = v;
        for i in (0..5).rev() {
            d[i] = (x % 85) as u8 + b'!';
            x /= 85;
        }
        for &ch in d.iter().take(chunk.len() + 1) {
            out.push(ch);
            ws(&mut out, r);
        }
    }
    out.extend_from_slice(b"~>");
    out
}

pub fn ascii_hex(data: &[u8], r: &mut Rng, whitespace: bool, drop_final_zero_nibble: bool) -> Vec<u8> {
    let mut out = Vec::new();
    let upper = r.bool();
    for (i, b) in data.iter().enumerate() {
        let s = if upper { format!("{:02X}", b) } else { format!("{:02x}", b) };
        let bytes = s.as_bytes();
        out.push(bytes[0]);
        if whitespace && r.chance(1, 8) {
            out.push(*r.pick(&WS));
        }
        let last = i + 1 == data.len();
        if !(last && drop_final_zero_nibble && b & 0x0F == 0) {
            out.push(bytes[1]);
        }
        if whitespace && r.chance(1, 8) {
            out.push(*r.pick(&WS));
        }
    }
    out.push(b'>');
    out
}

/// RunLength encoder with a random (valid) segmentation.
pub fn run_length(data: &[u8], r: &mut Rng) -> Vec<u8> {
    let mut out = Vec::new();
    let mut i = 0;
    while i < data.len() {
        // length of the run of equal bytes here
        let mut run = 1;
        while i + run < data.len() && data[i + run] == data[i] && run < 128 {
            run += 1;
        }
        if run >= 2 && r.chance(3, 4) {
            let n = if r.chance(1, 4) { r.urange(2, run) } else { run };
            out.push((257 - n) as u8);
            out.push(data[i]);
            i += n;
        } else {
            let n = r.urange(1, 128).min(data.len() - i);
            out.push((n - 1) as u8);
            out.extend_from_slice(&data[i..i + n]);
            i += n;
        }
    }
    out.push(128);
    out
}

/// CCITT Group 4 (K=-1) of a packed bitmap (1 = white, PDF default BlackIs1=false).
pub fn ccitt_g4(bitmap: &[u8], width: usize, height: usize) -> Vec<u8> {
    use fax::{encoder::Encoder, Color, VecWriter};
    let row_bytes = width.div_ceil(8);
    let mut enc = Encoder::new(VecWriter::new());
    for y in 0..height {
        let row = &bitmap[y * row_bytes..(y + 1) * row_bytes];
        let pels = (0..width).map(|x| {
            if row[x / 8] & (0x80 >> (x % 8)) != 0 {
                Color::White
            } else {
                Color::Black
            }
        });
        enc.encode_line(pels, width as u16).unwrap();
    }
    enc.finish().unwrap().finish()
}

#[derive(Clone, Copy, Debug)]
pub struct PredParams {
    pub predictor: u32, // 2, 10..=15
    pub colors: usize,
    pub bpc: usize,
    pub columns: usize,
}
impl PredParams {
    pub fn row_bytes(&self) -> usize {
        (self.columns * self.colors * self.bpc).div_ceil(8)
    }
}

fn paeth(a: u8, b: u8, c: u8) -> u8 {
    let (ia, ib, ic) = (a as i32, b as i32, c as i32);
    let p = ia + ib - ic;
    let (pa, pb, pc) = ((p - ia).abs(), (p - ib).abs(), (p - ic).abs());
    if pa <= pb && pa <= pc {
        a
    } else if pb <= pc {
        b
    } else {
        c
    }
}

/// PNG prediction (encoder side). Predictor 10..14 use the fixed row filter
/// 0..4, 15 picks a filter per row at random.
pub fn png_predict(raw: &[u8], p: &PredParams, r: &mut Rng) -> Vec<u8> {
    let rb = p.row_bytes();
    let bpp = (p.bpc * p.colors).div_ceil(8).max(1);
    let mut out = Vec::with_capacity(raw.len() + raw.len() / rb.max(1) + 1);
    let zero = vec![0u8; rb];
    for (ri, row) in raw.chunks(rb).enumerate() {
        let prev: &[u8] = if ri == 0 { &zero } else { &raw[(ri - 1) * rb..ri * rb] };
        let ft = if p.predictor == 15 { r.below(5) as u8 } else { (p.predictor - 10) as u8 };
        out.push(ft);
        for i in 0..row.len() {
            let a = if i >= bpp { row[i - bpp] } else { 0 };
            let b = prev[i];
            let c = if i >= bpp { prev[i - bpp] } else { 0 };
            let pred = match ft {
                0 => 0,
                1 => a,
                2 => b,
                3 => ((a as u16 + b as u16) / 2) as u8,
                _ => paeth(a, b, c),
            };
            out.push(row[i].wrapping_sub(pred));
        }
    }
    out
}

/// TIFF predictor 2 (encoder side): horizontal differencing of samples.
pub fn tiff_predict(raw: &[u8], p: &PredParams) -> Vec<u8> {
    let rb = p.row_bytes();
    let mut out = Vec::with_capacity(raw.len());
    for row in raw.chunks(rb) {
        match p.bpc {
            8 => {
                for i in 0..row.len() {
                    let left = if i >= p.colors { row[i - p.colors] } else { 0 };
                    out.push(row[i].wrapping_sub(left));
                }
            }
            16 => {
                let n = row.len() / 2;
                for i in 0..n {
                    let cur = u16::from_be_bytes([row[2 * i], row[2 * i + 1]]);
                    let left = if i >= p.colors { u16::from_be_bytes([row[2 * (i - p.colors)], row[2 * (i - p.colors) + 1]]) } else { 0 };
                    out.extend_from_slice(&cur.wrapping_sub(left).to_be_bytes());
                }
                if row.len() % 2 == 1 {
                    out.push(row[row.len() - 1]);
                }
            }
            bpc => {
                // unpack samples, difference mod 2^bpc, repack
                let nsamp = p.columns * p.colors;
                let mask = (1u16 << bpc) - 1;
                let get = |k: usize| -> u16 {
                    let bit = k * bpc;
                    let byte = row[bit / 8];
                    ((byte >> (8 - bpc - bit % 8)) as u16) & mask
                };
                let mut packed = vec![0u8; row.len()];
                for k in 0..nsamp {
                    let left = if k >= p.colors { get(k - p.colors) } else { 0 };
                    let d = get(k).wrapping_sub(left) & mask;
                    let bit = k * bpc;
                    packed[bit / 8] |= (d as u8) << (8 - bpc - bit % 8);
                }
                out.extend_from_slice(&packed);
            }
        }
    }
    out
}

/// Test data of various textures.
pub fn sample_data(r: &mut Rng, len: usize) -> Vec<u8> {
    match r.below(6) {
        0 => r.bytes(len),
        1 => (0..len).map(|_| *r.pick(&[0u8, 0, 0, 1, 255])).collect(),
        2 => {
            let mut v = Vec::with_capacity(len);
            while v.len() < len {
                let b = r.below(256) as u8;
                let n = r.urange(1, 300).min(len - v.len());
                v.extend(std::iter::repeat(b).take(n));
            }
            v
        }
        3 => vec![0u8; len],
        4 => (0..len).map(|_| b"the quick brown fox (jumps) \\over\n"[r.usize_below(34)]).collect(),
        _ => (0..len).map(|i| (i as u8).wrapping_mul(r.below(4) as u8 + 1)).collect(),
    }
}
