#!/usr/bin/env python3
"""Regenerate MANIFEST.json from props.py (maintainer tool)."""
import json, os, sys, subprocess
ROOT = os.path.dirname(os.path.dirname(os.path.abspath(__file__)))
sys.path.insert(0, ROOT)
import props
ids = [json.loads(l)["id"] for l in open(os.path.join(ROOT, "properties.jsonl"))]
hooks_commits = []
try:
    out = subprocess.run(["git", "-C", "/repo", "log", "--format=%H %s"], capture_output=True, text=True).stdout
    for l in out.splitlines():
        h, s = l.split(" ", 1)
        if s.startswith("verif hook"):
            hooks_commits.append(h)
except Exception:
    pass
checks = []
for pid in ids:
    if pid not in props.PROPS:
        continue
    P = props.PROPS[pid]
    checks.append({
        "property_id": pid,
        "quick_cmd": "./check %s --tier quick" % pid,
        "thorough_cmd": "./check %s --tier thorough" % pid,
        "evidence_file": "/verif/evidence/%s.json" % pid,
        "replay_cmd_template": "./check %s --replay {path}" % pid,
        "engine": "vh",
        "level_claimed": {"category": P["level"], "text": P["level_text"], "design_ref": P.get("design_ref", "DESIGN.md §5 " + pid)},
        "level_note": P["level_note"],
        "technique": P["technique"],
    })
na = [{"property_id": pid, "reason": props.NOT_APPLICABLE.get(pid, "no check registered yet: the monitor for this property is still being built (see DESIGN.md §5 %s for the plan)" % pid)}
      for pid in ids if pid not in props.PROPS]
man = {
    "version": 1,
    "setup_cmd": "./setup.sh",
    "hooks": {
        "guard": "cargo feature `verif-hooks` of crate oxidize-pdf (off by default)",
        "enable": "harness/Cargo.toml depends on oxidize-pdf by path (/repo/oxidize-pdf-core) with features=[\"verif-hooks\", \"semantic\"] (semantic is an existing library feature that makes RagChunk serialisable; only verif-hooks guards instrumentation); every ./check rebuilds it with `cargo build --profile verif --offline`",
        "baseline_off_cmd": "cd /repo && cargo nextest run --workspace --no-fail-fast --test-threads 8 --offline",
        "source_commits": list(reversed(hooks_commits)),
        "add_only": True,
    },
    "engines": [
        {"name": "vh", "path": "/verif/harness", "serves_properties": [c["property_id"] for c in checks],
         "kind_free_text": "Rust workload driver linked against /repo's working tree (generators, in-process monitors: panic hook, counting allocator, CPU budget, event sink/failpoints) + Python reference implementations and offline checkers in /verif/pyref; driver ./check"},
    ],
    "checks": checks,
    "not_applicable": na,
    "notes": "Runtime monitoring: every verdict means 'held on the executions produced'. Exit 0 held / 1 violated (VIOLATION line) / 3 inconclusive. Known findings: known_findings.jsonl (exact signatures). See DESIGN.md.",
}
json.dump(man, open(os.path.join(ROOT, "MANIFEST.json"), "w"), indent=1)
print("checks:", len(checks), "not_applicable:", len(na))
