//! DOC — runs authoring programs (gen::docgen) through the public API under
//! writer configurations (and optionally encryption), writes the files and a
//! cases-<shard>.jsonl with the model; OBS then reads them back with the
//! library and the Python checkers judge (C02, C03, C05, C10, C28, C30).
use crate::gen::docgen;
use crate::rec::hex;
use crate::{Ctx, Recorder, Rng};
use oxidize_pdf::document::{DocumentEncryption, EncryptionStrength};
use oxidize_pdf::encryption::Permissions;
use serde_json::{json, Value};
use std::io::Write;

pub const STRENGTHS: [(&str, EncryptionStrength); 4] = [
    ("rc4_40", EncryptionStrength::Rc4_40bit),
    ("rc4_128", EncryptionStrength::Rc4_128bit),
    ("aes_128", EncryptionStrength::Aes128),
    ("aes_256", EncryptionStrength::Aes256),
];
pub const PASSWORDS: [(&str, &str); 8] = [
    ("empty", ""),
    ("ascii", "userpw"),
    ("ascii_symbols", "p@ss (w)\\rd"),
    ("latin1", "contraseña"),
    ("bmp", "пароль-密码"),
    ("astral", "pw😀key"),
    ("len33", "0123456789abcdefghijklmnopqrstuvw"),
    ("len120", "012345678901234567890123456789012345678901234567890123456789012345678901234567890123456789012345678901234567890123456789"),
];

pub fn run(ctx: &Ctx, rec: &mut Recorder) -> Result<(), String> {
    let flavor = ctx.arg("flavor").unwrap_or("c02").to_string();
    let dir = ctx.out.join("cases");
    std::fs::create_dir_all(&dir).map_err(|e| e.to_string())?;
    let mut f = std::io::BufWriter::new(std::fs::File::create(dir.join(format!("cases-{}.jsonl", ctx.shard))).map_err(|e| e.to_string())?);
    let (nprog, rich, classes, cfg_sample, enc_mode): (u64, bool, Vec<&str>, usize, &str) = match flavor.as_str() {
        "c02" => (ctx.qt(16, 24), true, vec!["ascii", "delims", "latin1"], 32, "none"),
        "c03" => (ctx.qt(16, 12), true, vec!["ascii", "delims", "latin1", "cp1252", "bmp", "astral", "controls"], 32, "some"),
        "c05" => (ctx.qt(24, 150), true, vec!["ascii", "delims", "latin1", "bmp"], 4, "all"),
        "c10" => (ctx.qt(250, 4000), true, vec!["ascii", "delims", "latin1", "cp1252", "bmp", "astral", "controls", "bomlike"], 3, "none"),
        "c28" => (ctx.qt(300, 6000), true, vec!["ascii"], 3, "none"),
        other => return Err(format!("unknown DOC flavor {other}")),
    };
    let all_cfgs = docgen::configs();
    for pno in 0..nprog {
        if !ctx.mine(pno) {
            continue;
        }
        let mut r = Rng::derive(ctx.seed, 0xD0C, pno);
        let mut prog = docgen::gen_program(&mut r, rich, &classes);
        // program 1 of the structural checks is always a long document (several object streams),
        // program 2 always re-uses one image resource name on every page
        if (flavor == "c02" || flavor == "c03") && (pno == 1 || pno == 2) {
            for attempt in 1..400u64 {
                let pages = prog["pages"].as_array().map(|a| a.len()).unwrap_or(0);
                let shared = prog["pages"].as_array().map(|a| a.iter().filter(|p| p["images"].as_array().map(|i| i.iter().any(|x| x["name"] == "Chart")).unwrap_or(false)).count()).unwrap_or(0);
                if (pno == 1 && pages >= 100) || (pno == 2 && shared >= 2 && pages < 100) {
                    break;
                }
                r = Rng::derive(ctx.seed, 0xD0C, pno + attempt * 1_000_003);
                prog = docgen::gen_program(&mut r, rich, &classes);
            }
        }
        if prog["pages"].as_array().map(|a| a.len()).unwrap_or(0) >= 100 {
            rec.count("programs_with_100_or_more_pages");
        }
        if prog["pages"].as_array().map(|a| a.iter().filter(|p| p["images"].as_array().map(|i| i.iter().any(|x| x["name"] == "Chart")).unwrap_or(false)).count()).unwrap_or(0) >= 2 {
            rec.count("programs_reusing_one_image_name_across_pages");
        }
        let progfile = format!("prog-{pno}.json");
        crate::rec::write_file(&dir.join(&progfile), serde_json::to_string(&prog).unwrap().as_bytes());
        let mut cfgs: Vec<usize> = (0..all_cfgs.len()).collect();
        if cfg_sample < cfgs.len() {
            r.shuffle(&mut cfgs);
            // at most one configuration with object streams per program (slow to open, see below)
            // (encrypted files with object streams are read by the library through its recovery
            // path at 10-30 CPU-seconds per open — a finding of its own — so only a few programs
            // include such a configuration)
            let mut seen_os = (flavor == "c05" && pno >= ctx.qt(2, 6)) || ((flavor == "c10" || flavor == "c28") && pno >= ctx.qt(6, 40));
            cfgs.retain(|i| {
                if all_cfgs[*i].1.use_object_streams {
                    if seen_os {
                        return false;
                    }
                    seen_os = true;
                }
                true
            });
            cfgs.truncate(cfg_sample);
        } else if ctx.quick() && prog["pages"].as_array().map(|a| a.len()).unwrap_or(0) >= 100 {
            // a long document under the whole lattice is slow to observe: two configurations with
            // object streams (several object streams each) and two without
            let mut with_os: Vec<usize> = cfgs.iter().copied().filter(|i| all_cfgs[*i].1.use_object_streams).collect();
            let mut without: Vec<usize> = cfgs.iter().copied().filter(|i| !all_cfgs[*i].1.use_object_streams).collect();
            r.shuffle(&mut with_os);
            r.shuffle(&mut without);
            with_os.truncate(2);
            without.truncate(2);
            cfgs.retain(|i| with_os.contains(i) || without.contains(i));
        } else if ctx.quick() && pno >= 4 {
            // Files with object streams carry a million-entry cross-reference stream (the writer
            // numbers object streams from 1 000 000), which costs about a second per open: in the
            // quick tier only the first four programs run the full lattice, the others run every
            // configuration without object streams plus four sampled ones with.
            let mut with_os: Vec<usize> = cfgs.iter().copied().filter(|i| all_cfgs[*i].1.use_object_streams).collect();
            r.shuffle(&mut with_os);
            with_os.truncate(4);
            cfgs.retain(|i| !all_cfgs[*i].1.use_object_streams || with_os.contains(i));
        }
        for ci in cfgs {
            let (cname, cfg) = all_cfgs[ci].clone();
            // encryption variants for this (program, config)
            let mut encs: Vec<Option<(usize, usize, usize, u32)>> = vec![None];
            match enc_mode {
                "some" => {
                    if r.chance(1, 4) {
                        encs.push(Some((r.usize_below(4), r.usize_below(3), r.usize_below(3), 0xFFFFF0C0 | (r.next_u32() & 0x0F3C))));
                    }
                }
                "all" => {
                    for s in 0..4 {
                        encs.push(Some((s, r.usize_below(PASSWORDS.len()), 1 + r.usize_below(PASSWORDS.len() - 1), if r.chance(1, 4) { 0xFFFFFFFC } else { 0xFFFFF0C0 | (r.next_u32() & 0x0F3C) })));
                    }
                }
                _ => {}
            }
            for enc in encs {
                let built = crate::mon::guarded(|| docgen::build(&prog));
                let mut built = match built {
                    Ok(b) => b,
                    Err(p) => {
                        rec.violation(format!("{}|panic|authoring|{}", flavor.to_uppercase(), p.site()), p.message.clone(), json!({"program": prog}));
                        continue;
                    }
                };
                let mut enc_json = Value::Null;
                let mut password = Value::Null;
                if let Some((s, u, o, pbits)) = enc {
                    let (sname, strength) = STRENGTHS[s];
                    let (ucls, upw) = PASSWORDS[u];
                    let (ocls, opw0) = PASSWORDS[o];
                    let opw = format!("{opw0}-owner");
                    built.doc.set_encryption(DocumentEncryption::new(upw, opw.clone(), Permissions::from_bits(pbits), strength));
                    enc_json = json!({"strength": sname, "user_pw": upw, "owner_pw": opw, "ucls": ucls, "ocls": ocls, "P": pbits});
                    password = json!(upw);
                }
                let tag = match &enc {
                    Some((s, ..)) => format!("-{}", STRENGTHS[*s].0),
                    None => String::new(),
                };
                let id = format!("{flavor}-p{pno}-c{ci}{tag}");
                let file = format!("{id}.pdf");
                rec.evaluations += 1;
                let written = crate::mon::guarded(|| docgen::write(&mut built.doc, cfg.clone()));
                let bytes = match written {
                    Ok(Ok(b)) => b,
                    Ok(Err(e)) => {
                        writeln!(f, "{}", json!({"id": id, "file": file, "write_error": e, "config": cname, "enc": enc_json, "program_file": progfile, "presets": []})).ok();
                        continue;
                    }
                    Err(p) => {
                        rec.violation(format!("{}|panic|writer|{}", flavor.to_uppercase(), p.site()), format!("{} (config {cname})", p.message), json!({"program": prog, "config": cname}));
                        continue;
                    }
                };
                crate::rec::write_file(&dir.join(&file), &bytes);
                let model_pages: Vec<Value> = prog["pages"].as_array().unwrap().iter().enumerate().map(|(i, p)| {
                    json!({"w": p["w"], "h": p["h"], "rot": p["rot"], "content_hex": hex(built.page_contents.get(i).map(|v| v.as_slice()).unwrap_or(&[])),
                        "images": p["images"], "annots": p["annots"]})
                }).collect();
                let mut line = json!({"id": id, "file": file, "config": cname, "enc": enc_json, "program_file": progfile, "prog": pno,
                    "presets": if flavor == "c05" || flavor == "c10" { json!(["default"]) } else if ctx.quick() && cfg.use_object_streams { json!(["strict"]) } else { json!(["strict", "default"]) }, "objects": "all", "pages": true, "content": true, "metadata": true, "decode": true,
                    "model": {"pages": model_pages, "meta": prog["meta"], "outline": prog["outline"], "named": prog["named"]},
                    "authoring_errors": built.errors});
                if !password.is_null() {
                    line["password"] = password;
                }
                writeln!(f, "{}", line).ok();
                // C28: the same Document written a second time after a change that shifts object numbers
                // (encryption adds an object before the pages): what the first write resolved must not leak
                if flavor == "c28" && enc.is_none() && !cfg.use_object_streams && r.chance(1, 2) {
                    built.doc.set_encryption(DocumentEncryption::new("", "second-write-owner", Permissions::from_bits(0xFFFFF0C0 | 0x0F3C), EncryptionStrength::Rc4_128bit));
                    if let Ok(Ok(b2)) = crate::mon::guarded(|| docgen::write(&mut built.doc, cfg.clone())) {
                        let file2 = format!("{id}-second.pdf");
                        crate::rec::write_file(&dir.join(&file2), &b2);
                        let mut l2 = line.clone();
                        l2["id"] = json!(format!("{id}-second"));
                        l2["file"] = json!(file2);
                        l2["enc"] = json!({"strength": "rc4_128", "user_pw": "", "owner_pw": "second-write-owner", "ucls": "empty", "ocls": "ascii", "P": 0});
                        l2["password"] = json!("");
                        l2["second_write"] = json!(true);
                        rec.count("second_writes_after_a_change");
                        rec.evaluations += 1;
                        writeln!(f, "{}", l2).ok();
                    }
                }
                // second observation with the owner password
                if let (Some(e), true) = (enc_json.as_object(), flavor == "c05") {
                    let mut l2 = line.clone();
                    l2["id"] = json!(format!("{id}-owner"));
                    l2["password"] = e["owner_pw"].clone();
                    l2["which"] = json!("owner");
                    writeln!(f, "{}", l2).ok();
                    if r.chance(1, 3) {
                        let mut l3 = line.clone();
                        l3["id"] = json!(format!("{id}-wrong"));
                        l3["password"] = json!(format!("wrong-{}", pno));
                        l3["which"] = json!("wrong");
                        writeln!(f, "{}", l3).ok();
                    }
                }
            }
        }
    }
    Ok(())
}
