pub mod enc;
