"""C30 — judge what the library wrote for a user-chosen resource name: the file must be valid for the
independent reader and validator, the resource dictionary must hold the name (after #xx decoding) in
the category of its entry point, the page content must use exactly that name with the operator of the
entry point, and the name must resolve to an object of the intended kind. The library's own view
(recorded by the Rust stage) is judged the same way."""
import json, os, sys
from .. import pdf
from ..pdf import Name, Ref, Stream
from ..validate import validate
from .common import args
from .docchecks import load_doc_cases
from ..recpy import Recorder

CATEGORY = {"image": (b"XObject", b"Do"), "two_images": (b"XObject", b"Do"), "form_xobject": (b"XObject", b"Do"),
            "color_space": (b"ColorSpace", b"cs"), "shading": (b"Shading", b"sh"), "font": (b"Font", b"Tf")}

def kind_ok(ep, obj, doc):
    o = doc.resolve(obj)
    if ep in ("image", "two_images"):
        return isinstance(o, Stream) and o.dict.get(b"Subtype") == Name(b"Image")
    if ep == "form_xobject":
        return isinstance(o, Stream) and o.dict.get(b"Subtype") == Name(b"Form")
    if ep == "color_space":
        return isinstance(o, list) and len(o) >= 1 and o[0] == Name(b"CalGray")
    if ep == "shading":
        d = o.dict if isinstance(o, Stream) else o
        return isinstance(d, dict) and b"ShadingType" in d
    if ep == "font":
        return isinstance(o, dict) and o.get(b"Type") == Name(b"Font") and o.get(b"Subtype") == Name(b"Type0")
    return False

def main():
    out, seed, tier, kv = args()
    rec = Recorder("py")
    cases = load_doc_cases(os.path.join(out, "cases"))
    for c in cases:
        ep = c["entry_point"]
        if "rejected" in c:
            rec.count("rejected_by_api")
            continue
        cat, op = CATEGORY[ep]
        names = [bytes.fromhex(h) for h in c["names_hex"]]
        cls = c["class"]
        wit = {"case": c["case"], "seed": c["seed"], "entry_point": ep, "class": cls, "name_hex": c["name_hex"], "name": names[0].decode("utf-8", "replace"), "config": c["config"], "file": c["file"]}
        data = open(os.path.join(out, "cases", c["file"]), "rb").read()
        def bad(what, detail):
            w = dict(wit); w["file_hex"] = data.hex() if len(data) < 20000 else None
            rec.violation("C30|%s|%s|%s" % (ep, what, cls), detail, w)
        # ---------------- independent reader
        try:
            problems, _doc = validate(data)
        except Exception as e:
            problems = [("validator_raised", repr(e))]
        if problems:
            bad("file_invalid_for_independent_reader", "; ".join(str(p) for p in problems)[:300])
            rec.case(c["id"], True)
            continue
        try:
            doc = pdf.Document(data, strict=True)
            pages = doc.pages()
            _, page, inh = pages[0]
            res = doc.resolve(page.get(b"Resources", inh.get(b"Resources")))
            content = doc.page_content(page)
            ops = pdf.content_ops(content, strict=True)
        except Exception as e:
            bad("page_unreadable_for_independent_reader", repr(e)[:300])
            continue
        catd = doc.resolve(res.get(cat)) if isinstance(res, dict) else None
        ok = True
        for n in names:
            if not isinstance(catd, dict) or n not in catd:
                bad("resource_key_differs_from_given_name", "/%s holds %r, expected key %r" % (cat.decode(), sorted(catd.keys())[:8] if isinstance(catd, dict) else catd, n))
                ok = False
                break
            if not kind_ok(ep, catd[n], doc):
                bad("name_resolves_to_wrong_kind", "%r -> %r" % (n, doc.resolve(catd[n])))
                ok = False
                break
        if not ok:
            continue
        used = [o[1][0].v for o in ops if o[0] == op and o[1] and isinstance(o[1][0], Name)]
        unknown = [o[0] for o in ops if o[0] not in pdf_ops()]
        if unknown:
            bad("content_has_unknown_operators", "operators %r (the name broke the content stream?)" % unknown[:5])
            continue
        if sorted(used) != sorted(names):
            bad("content_operand_differs_from_given_name", "%s operands %r, expected %r" % (op.decode(), used, names))
            continue
        rec.count("independent_reader_ok")
        # ---------------- the library's own view
        if "lib_panic" in c:
            bad("library_reader_panics", c["lib_panic"][:300]); continue
        if "lib_err" in c:
            bad("library_reader_fails", c["lib_err"][:300]); continue
        lib = c["lib"]
        lres = lib["resources"] or {}
        lcat = lres.get(cat.hex(), {}).get("d") if isinstance(lres.get(cat.hex()), dict) else None
        miss = [n for n in names if not isinstance(lcat, dict) or n.hex() not in lcat]
        if miss:
            bad("library_reads_different_resource_key", "library sees keys %r, expected %r" % ([bytes.fromhex(k) for k in (lcat or {})][:8], miss)); continue
        want_ops = {b"Do": "PaintXObject", b"cs": "SetNonStrokingColorSpace", b"sh": "ShadingFill", b"Tf": "SetFont"}[op]
        lib_named = [x for x in lib["named_ops"] if x.startswith(want_ops)]
        exp = [n.decode("utf-8", "replace") for n in names]
        got = []
        for x in lib_named:
            # Debug form: PaintXObject("name") / SetFont("name", 14.0)
            try:
                got.append(rust_debug_str(x))
            except Exception:
                got.append(x)
        if sorted(got) != sorted(exp):
            bad("library_reads_different_content_operand", "library parsed %r, expected %r" % (lib_named, exp)); continue
        rec.count("library_reader_ok")
        rec.case(c["id"], True)
        rec.set_add("ok_entry_point_x_class", "%s|%s" % (ep, cls))
    rec.write(out)

def rust_debug_str(x):
    """extract the first "..." of a Rust Debug rendering and undo its escapes"""
    i = x.index('"'); out = []; j = i + 1
    while j < len(x):
        ch = x[j]
        if ch == '"':
            break
        if ch == "\\":
            nx = x[j + 1]
            if nx == "u":
                k = x.index("}", j)
                out.append(chr(int(x[j + 3:k], 16))); j = k + 1; continue
            out.append({"n": "\n", "r": "\r", "t": "\t", "0": "\0", "\\": "\\", '"': '"', "'": "'"}.get(nx, nx)); j += 2; continue
        out.append(ch); j += 1
    return "".join(out)

_OPS = None
def pdf_ops():
    global _OPS
    if _OPS is None:
        _OPS = set(x.encode() for x in "b B b* B* BDC BI BMC BT BX c cm CS cs d d0 d1 Do DP EI EMC ET EX f F f* G g gs h i ID j J K k l m M MP n q Q re RG rg ri s S SC sc SCN scn sh T* Tc Td TD Tf Tj TJ TL Tm Tr Ts Tw Tz v w W W* y ' \"".split())
    return _OPS

if __name__ == "__main__":
    main()
