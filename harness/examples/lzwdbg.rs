use vh::gen::enc;
fn main() {
    for (d, name) in [(vec![], "empty"), (b"a".to_vec(), "a"), (b"abababababab".to_vec(), "ab"), ((0..2000u32).map(|i| (i*7 % 251) as u8).collect::<Vec<u8>>(), "long")] {
        for early in [true, false] {
            let a = enc::lzw_own(&d, early, &[]);
            let b = enc::lzw_weezl(&d, early);
            let same = a == b;
            let mut dec = if early { weezl::decode::Decoder::with_tiff_size_switch(weezl::BitOrder::Msb, 8) } else { weezl::decode::Decoder::new(weezl::BitOrder::Msb, 8) };
            let r = dec.decode(&a);
            println!("{name} early={early} same={same} own={:02x?} weezl={:02x?} dec_ok={}", &a[..a.len().min(12)], &b[..b.len().min(12)], r.map(|x| x == d).unwrap_or(false));
            if !same { let i = a.iter().zip(b.iter()).position(|(x,y)| x!=y); println!("   first diff at {:?} lens {} {}", i, a.len(), b.len()); }
        }
    }
}
