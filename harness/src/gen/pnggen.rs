//! Own PNG encoder (so that interlacing, per-row filters, IDAT splitting and ancillary chunks
//! are under the generator's control) and the model of what the image means as RGBA.
use crate::Rng;
use flate2::write::ZlibEncoder;
use flate2::Compression;
use std::io::Write;

#[derive(Clone, Debug)]
pub struct PngSpec {
    pub w: u32,
    pub h: u32,
    pub color_type: u8, // 0 gray, 2 rgb, 3 palette, 4 gray+alpha, 6 rgba
    pub depth: u8,
    pub interlace: bool,
    pub palette: Vec<[u8; 3]>,
    /// palette alphas (type 3) or colour key samples (type 0: 1 value, type 2: 3 values)
    pub trns: Option<Vec<u16>>,
    /// channel samples, row-major, `channels()` per pixel, each < 2^depth
    pub samples: Vec<u16>,
    pub row_filters: Vec<u8>, // cycled
    pub zlevel: u32,
    pub idat_split: usize,
    pub ancillary: bool,
}

impl PngSpec {
    pub fn channels(&self) -> usize {
        match self.color_type {
            0 | 3 => 1,
            4 => 2,
            2 => 3,
            _ => 4,
        }
    }
    pub fn px(&self, x: u32, y: u32) -> &[u16] {
        let c = self.channels();
        let i = (y as usize * self.w as usize + x as usize) * c;
        &self.samples[i..i + c]
    }
    /// RGBA at the source precision scaled to 16 bits exactly (v * 65535 / max)
    pub fn rgba16(&self, x: u32, y: u32) -> [u16; 4] {
        let maxv = ((1u32 << self.depth) - 1) as u32;
        let up = |v: u16| -> u16 { (v as u32 * 65535 / maxv) as u16 };
        let p = self.px(x, y);
        match self.color_type {
            0 => {
                let a = match &self.trns {
                    Some(k) if k[0] == p[0] => 0,
                    _ => 65535,
                };
                [up(p[0]), up(p[0]), up(p[0]), a]
            }
            2 => {
                let a = match &self.trns {
                    Some(k) if k[0] == p[0] && k[1] == p[1] && k[2] == p[2] => 0,
                    _ => 65535,
                };
                [up(p[0]), up(p[1]), up(p[2]), a]
            }
            3 => {
                let e = self.palette.get(p[0] as usize).copied().unwrap_or([0, 0, 0]);
                let a = self.trns.as_ref().and_then(|t| t.get(p[0] as usize)).copied().unwrap_or(255);
                [e[0] as u16 * 257, e[1] as u16 * 257, e[2] as u16 * 257, a * 257]
            }
            4 => [up(p[0]), up(p[0]), up(p[0]), up(p[1])],
            _ => [up(p[0]), up(p[1]), up(p[2]), up(p[3])],
        }
    }
}

fn crc32(data: &[u8]) -> u32 {
    let mut c = flate2::Crc::new();
    c.update(data);
    c.sum()
}

fn chunk(out: &mut Vec<u8>, kind: &[u8; 4], data: &[u8]) {
    out.extend_from_slice(&(data.len() as u32).to_be_bytes());
    let mut body = kind.to_vec();
    body.extend_from_slice(data);
    out.extend_from_slice(&body);
    out.extend_from_slice(&crc32(&body).to_be_bytes());
}

fn pack_row(spec: &PngSpec, xs: &[u32], y: u32) -> Vec<u8> {
    let mut bits: Vec<u8> = Vec::new();
    let d = spec.depth as usize;
    if d == 16 {
        for &x in xs {
            for v in spec.px(x, y) {
                bits.extend_from_slice(&v.to_be_bytes());
            }
        }
        return bits;
    }
    let mut acc: u32 = 0;
    let mut n = 0;
    for &x in xs {
        for v in spec.px(x, y) {
            acc = (acc << d) | (*v as u32);
            n += d;
            while n >= 8 {
                bits.push((acc >> (n - 8)) as u8);
                n -= 8;
                acc &= (1 << n) - 1;
            }
        }
    }
    if n > 0 {
        bits.push((acc << (8 - n)) as u8);
    }
    bits
}

fn paeth(a: i32, b: i32, c: i32) -> i32 {
    let p = a + b - c;
    let (pa, pb, pc) = ((p - a).abs(), (p - b).abs(), (p - c).abs());
    if pa <= pb && pa <= pc { a } else if pb <= pc { b } else { c }
}

fn filter_row(ft: u8, row: &[u8], prev: &[u8], bpp: usize) -> Vec<u8> {
    let mut out = vec![ft];
    for i in 0..row.len() {
        let a = if i >= bpp { row[i - bpp] as i32 } else { 0 };
        let b = prev.get(i).copied().unwrap_or(0) as i32;
        let c = if i >= bpp { prev.get(i - bpp).copied().unwrap_or(0) as i32 } else { 0 };
        let pred = match ft {
            0 => 0,
            1 => a,
            2 => b,
            3 => (a + b) / 2,
            _ => paeth(a, b, c),
        };
        out.push((row[i] as i32 - pred) as u8);
    }
    out
}

pub fn encode(spec: &PngSpec) -> Vec<u8> {
    let mut out = b"\x89PNG\r\n\x1a\n".to_vec();
    let mut ihdr = Vec::new();
    ihdr.extend_from_slice(&spec.w.to_be_bytes());
    ihdr.extend_from_slice(&spec.h.to_be_bytes());
    ihdr.extend_from_slice(&[spec.depth, spec.color_type, 0, 0, spec.interlace as u8]);
    chunk(&mut out, b"IHDR", &ihdr);
    if spec.ancillary {
        chunk(&mut out, b"gAMA", &45455u32.to_be_bytes());
        chunk(&mut out, b"pHYs", &[0, 0, 0x0b, 0x13, 0, 0, 0x0b, 0x13, 1]);
        chunk(&mut out, b"tEXt", b"Comment\0generated");
    }
    if spec.color_type == 3 || (!spec.palette.is_empty() && (spec.color_type == 2 || spec.color_type == 6)) {
        let p: Vec<u8> = spec.palette.iter().flatten().copied().collect();
        chunk(&mut out, b"PLTE", &p);
    }
    if let Some(t) = &spec.trns {
        let data: Vec<u8> = if spec.color_type == 3 { t.iter().map(|v| *v as u8).collect() } else { t.iter().flat_map(|v| v.to_be_bytes()).collect() };
        chunk(&mut out, b"tRNS", &data);
    }
    let bpp = ((spec.channels() * spec.depth as usize) / 8).max(1);
    let mut raw: Vec<u8> = Vec::new();
    let mut fidx = 0usize;
    let passes: Vec<(u32, u32, u32, u32)> = if spec.interlace {
        vec![(0, 0, 8, 8), (4, 0, 8, 8), (0, 4, 4, 8), (2, 0, 4, 4), (0, 2, 2, 4), (1, 0, 2, 2), (0, 1, 1, 2)]
    } else {
        vec![(0, 0, 1, 1)]
    };
    for (x0, y0, dx, dy) in passes {
        let xs: Vec<u32> = (x0..spec.w).step_by(dx as usize).collect();
        if xs.is_empty() {
            continue;
        }
        let mut prev: Vec<u8> = Vec::new();
        for y in (y0..spec.h).step_by(dy as usize) {
            let row = pack_row(spec, &xs, y);
            let ft = spec.row_filters[fidx % spec.row_filters.len()];
            fidx += 1;
            raw.extend(filter_row(ft, &row, &prev, bpp));
            prev = row;
        }
    }
    let mut z = ZlibEncoder::new(Vec::new(), Compression::new(spec.zlevel));
    z.write_all(&raw).unwrap();
    let comp = z.finish().unwrap();
    if spec.idat_split == 0 || comp.len() < 2 {
        chunk(&mut out, b"IDAT", &comp);
    } else {
        for part in comp.chunks(spec.idat_split.max(1)) {
            chunk(&mut out, b"IDAT", part);
        }
    }
    if spec.ancillary {
        chunk(&mut out, b"tIME", &[7, 0xE8, 1, 2, 3, 4, 5]);
    }
    chunk(&mut out, b"IEND", &[]);
    out
}

pub fn gen_spec(r: &mut Rng) -> PngSpec {
    let (color_type, depth) = *r.pick(&[(0u8, 1u8), (0, 2), (0, 4), (0, 8), (0, 16), (2, 8), (2, 16), (3, 1), (3, 2), (3, 4), (3, 8), (4, 8), (4, 16), (6, 8), (6, 16), (2, 8), (6, 8), (3, 8)]);
    let w = *r.pick(&[1u32, 2, 3, 5, 7, 8, 9, 15, 16, 17, 31, 33, 65]);
    let h = *r.pick(&[1u32, 2, 3, 4, 5, 8, 9, 13, 33]);
    let maxv = (1u32 << depth) - 1;
    let channels = match color_type { 0 | 3 => 1, 4 => 2, 2 => 3, _ => 4 };
    let mut palette = Vec::new();
    let mut trns = None;
    let mut limit = maxv;
    if color_type == 3 {
        let n = match r.below(4) { 0 => 1, 1 => (maxv + 1) as usize, _ => 1 + r.usize_below((maxv + 1) as usize) };
        palette = (0..n).map(|_| [r.below(256) as u8, r.below(256) as u8, r.below(256) as u8]).collect();
        limit = n as u32 - 1;
        trns = match r.below(3) {
            0 => None,
            1 => Some((0..n).map(|_| *r.pick(&[0u16, 255, 128, 1, 254])).collect()),
            _ => Some((0..1 + r.usize_below(n)).map(|_| r.below(256) as u16).collect()), // shorter than the palette
        };
    }
    let flat = r.chance(1, 6);
    let base: Vec<u16> = (0..channels).map(|_| r.below(limit as u64 + 1) as u16).collect();
    let samples: Vec<u16> = (0..(w * h) as usize * channels)
        .map(|i| {
            if flat { base[i % channels] } else {
                match r.below(8) {
                    0 => 0,
                    1 => limit as u16,
                    _ => r.below(limit as u64 + 1) as u16,
                }
            }
        })
        .collect();
    if (color_type == 0 || color_type == 2) && r.chance(1, 3) {
        // colour key: usually one that occurs in the image
        let k: Vec<u16> = if r.chance(3, 4) { samples[..channels].to_vec() } else { (0..channels).map(|_| r.below(limit as u64 + 1) as u16).collect() };
        trns = Some(k);
    }
    let row_filters: Vec<u8> = match r.below(7) {
        0 => vec![0],
        1 => vec![1],
        2 => vec![2],
        3 => vec![3],
        4 => vec![4],
        _ => (0..7).map(|_| r.below(5) as u8).collect(),
    };
    PngSpec { w, h, color_type, depth, interlace: r.chance(1, 3), palette, trns, samples, row_filters, zlevel: *r.pick(&[0u32, 1, 6, 9]), idat_split: *r.pick(&[0usize, 0, 1, 7, 100]), ancillary: r.chance(1, 3) }
}
