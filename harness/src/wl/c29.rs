//! C29 — object cache vs. reference LRU: exhaustive sequential enumeration and
//! concurrent histories checked for linearizability.
use super::c29_core::*;
use crate::{Ctx, Recorder};
use serde_json::json;

pub fn run(ctx: &Ctx, rec: &mut Recorder) -> Result<(), String> {
    // ---- sequential, exhaustive up to length L: 5 keys (so that every capacity
    // 0..4 can be filled and overflowed) and, deeper, 3 keys
    let (len5, len3) = ctx.qt((7usize, 7usize), (8usize, 9usize));
    let mut st = SeqStats::default();
    let t_phase = std::time::Instant::now();
    let mine = |i: u64| ctx.mine(i);
    // 5 keys: every capacity and both cache types up to len5-1; at len5 the two
    // capacities that need 5 keys to overflow (3, 4), LruCache only (ObjectCache
    // delegates to it and is covered by the shorter and the random sequences)
    for len in 0..len5 {
        enumerate(len, 5, &mine, &mut st);
    }
    enumerate_caps(len5, 5, &[3, 4], false, &mine, &mut st);
    for len in len5..=len3 {
        enumerate(len, 3, &mine, &mut st);
    }
    eprintln!("c29 enumerated {} sequences in {:?}", st.sequences, t_phase.elapsed());
    // ---- sequential, random and long: up to 8 keys, capacity up to 6
    let nrand = ctx.qt(40_000u64, 400_000u64) / ctx.nshards as u64;
    let mut lr = Lcg(ctx.seed ^ 0xABCDEF ^ ((ctx.shard as u64) << 40) | 1);
    for _ in 0..nrand {
        let nkeys = 2 + lr.below(7) as usize;
        let cap = lr.below(7) as usize;
        let len = 8 + lr.below(50) as usize;
        let codes: Vec<usize> = (0..len).map(|_| { let x = lr.below(100); if x < 3 { 2 * nkeys } else if x < 8 { 2 * nkeys + 1 } else { lr.below(2 * nkeys as u64) as usize } }).collect();
        let mut ev = false;
        let r1 = run_sequence(LruUT(oxidize_pdf::memory::LruCache::new(cap)), cap, &codes, nkeys, &mut ev);
        let r2 = run_sequence(ObjUT(oxidize_pdf::memory::ObjectCache::new(cap)), cap, &codes, nkeys, &mut ev);
        st.sequences += 2;
        st.steps += 2 * (len + nkeys) as u64;
        if ev {
            st.with_eviction += 1;
        }
        if st.violation.is_none() {
            if let Err(d) = r1 {
                st.violation = Some(("C29|sequential|LruCache|differs_from_reference_lru".into(), d));
            } else if let Err(d) = r2 {
                st.violation = Some(("C29|sequential|ObjectCache|differs_from_reference_lru".into(), d));
            }
        }
    }
    rec.eval_only(st.sequences);
    rec.count_n("sequential_sequences", st.sequences);
    rec.count_n("sequential_steps_compared", st.steps);
    rec.count_n("sequential_sequences_with_eviction", st.with_eviction);
    // distinct non-trivial = sequences that force at least one eviction (each
    // (codes, cap) is enumerated once, so the count is exact)
    for i in 0..st.with_eviction {
        rec.hashes.insert(crate::rng::fnv64(format!("seq-ev-{}-{}", ctx.shard, i).as_bytes()));
    }
    if let Some((sig, d)) = st.violation.take() {
        rec.violation(sig, d.clone(), json!({"detail": d}));
    }
    rec.extra.insert("sequential_max_len_5keys".into(), json!(len5));
    rec.extra.insert("sequential_max_len_3keys".into(), json!(len3));
    rec.extra.insert("exhaustive_sequential".into(), json!(true));

    eprintln!("c29 sequential total {:?}", t_phase.elapsed());
    // ---- concurrent histories
    let nhist = ctx.qt(30_000u64, 400_000u64) / ctx.nshards as u64;
    let mut lcg = Lcg(ctx.seed.wrapping_mul(0x9E3779B97F4A7C15) ^ (ctx.shard as u64) << 32 | 1);
    let mut overlapped = 0u64;
    let mut max_nodes = 0u64;
    for hno in 0..nhist {
        let plan = gen_plan(&mut lcg, 400);
        let (h, max_size) = run_plan(&plan, false);
        rec.evaluations += 1;
        let ov = has_overlap(&h);
        if ov {
            overlapped += 1;
            rec.hashes.insert(crate::rng::fnv64(format!("{:?}", h.iter().map(|e| (e.thread, e.op, e.ret)).collect::<Vec<_>>()).as_bytes()));
            if rec.sets.get("interleavings").map(|s| s.len()).unwrap_or(0) < 50_000 {
                rec.set_add("interleavings", interleaving_sig(&h));
            }
        }
        if max_size > plan.cap {
            rec.violation(
                "C29|concurrent|size_exceeds_capacity",
                format!("stats().size={max_size} > capacity {} observed", plan.cap),
                json!({"plan": format!("{:?}", plan.threads), "cap": plan.cap}),
            );
        }
        let (ok, nodes) = linearizable(&h, plan.cap);
        max_nodes = max_nodes.max(nodes);
        if !ok {
            rec.violation(
                "C29|concurrent|history_not_linearizable",
                format!("no linearization against the reference LRU (cap {}): {:?}", plan.cap, h),
                json!({"cap": plan.cap, "history": format!("{:?}", h)}),
            );
        }
        if hno < 2 && ctx.shard == 0 {
            rec.sample(json!({"kind": "concurrent history", "cap": plan.cap,
                "events": h.iter().map(|e| format!("t{} {:?} -> {:?} [{}..{}]", e.thread, e.op, e.ret, e.call, e.retn)).collect::<Vec<_>>()}));
        }
    }
    rec.count_n("concurrent_histories", nhist);
    rec.count_n("concurrent_histories_with_real_overlap", overlapped);
    rec.extra.insert("max_linearization_nodes".into(), json!(max_nodes));
    if ctx.shard == 0 {
        rec.sample(json!({"kind": "sequential", "example": "cap=2 [Put(0,100), Put(1,101), Get(0), Put(2,103)] then probes Get(0..2): model and cache must agree at every step"}));
    }
    Ok(())
}
