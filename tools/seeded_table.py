#!/usr/bin/env python3
"""Regenerate the table of seeded changes in DESIGN.md (between the SEEDED_TABLE markers) from seeded/*/meta.json."""
import json, glob, os, re

rows = []
for mp in sorted(glob.glob("/verif/seeded/C*/meta.json")):
    m = json.load(open(mp))
    key = os.path.basename(os.path.dirname(mp))
    runs = m.get("trial_runs_in_order") or []
    def short(s, n):
        s = re.sub(r"\s+", " ", (s or "").strip())
        return s if len(s) <= n else s[:n - 1] + "…"
    if "caught_by" in m and not runs:  # saved by hand earlier (C29)
        verdict, sig = "caught", short(m["caught_by"], 110)
    elif not runs:
        verdict, sig = ("see note", short(m.get("note", ""), 110))
    else:
        first, last = runs[0], runs[-1]
        if last["caught"] and first["caught"] and m.get("strengthened_before_first_trial"):
            verdict = "caught after strengthening (done before the first trial, from the agent's report)"
        elif last["caught"] and first["caught"]:
            verdict = "caught"
        elif last["caught"]:
            verdict = "missed at first, caught after strengthening"
        else:
            verdict = "MISSED"
        sig = short(", ".join(last["violation_signatures"][:2]), 110) if last["violation_signatures"] else short(m.get("note", ""), 110)
    rows.append("| %s | %s | %s | %s | %s |" % (key, short(m.get("breaks"), 150), short(m.get("needs_to_manifest"), 120), verdict, sig.replace("|", "¦")))

table = "| change | what it breaks | what it needs to manifest | outcome (check = property id) | first signatures reported |\n|---|---|---|---|---|\n" + "\n".join(rows)
n = len(rows)
caught = sum(1 for r in rows if "| caught |" in r)
later = sum(1 for r in rows if "caught after strengthening" in r)
missed = sum(1 for r in rows if "| MISSED |" in r)
summary = "%d changes kept: %d caught by the check as it stood, %d missed at first and caught after the check was strengthened because of them, %d still missed, %d explained in a note.\n\n" % (n, caught, later, missed, n - caught - later - missed)
p = "/verif/DESIGN.md"
s = open(p).read()
block = "<!-- SEEDED_TABLE_BEGIN -->\n" + summary + table + "\n<!-- SEEDED_TABLE_END -->"
if "SEEDED_TABLE_PLACEHOLDER" in s:
    s = s.replace("SEEDED_TABLE_PLACEHOLDER", block)
else:
    s = re.sub(r"<!-- SEEDED_TABLE_BEGIN -->.*?<!-- SEEDED_TABLE_END -->", lambda _: block, s, flags=re.S)
open(p, "w").write(s)
print(summary)
