"""Per-property check definitions used by ./check and tools/gen_manifest.py."""

def rust(**kw):
    return ("rust", kw)

def py(module, **kw):
    return ("py", module, kw)

PROPS = {}

PROPS["C25"] = dict(
    title="Single-byte text encodings match the normative tables",
    level="exploration",
    exhaustive=True,
    technique="runtime dump of the complete encode/decode behaviour (256 bytes x 4 encodings, all 1 112 064 scalar values x 2 encode paths x 4 encodings) judged offline against transcribed Annex D tables",
    stages=[rust(shards=1), py("pyref.checks.c25")],
    rule="exhaustive: every byte 0..255 through decode() and PdfString::to_text, every Unicode scalar value through encode_strict() and encode(), for WinAnsi/MacRoman/Standard/PDFDoc; a case is non-trivial (and counted once) when Annex D assigns that byte / character in that encoding",
    assumptions=["Annex D tables transcribed by hand in pyref/enc_tables.py (cross-checked against Python's cp1252/mac_roman/latin-1 codecs where they agree, bijectivity, entry counts 149 Standard / 232 PDFDoc)",
                 "codes on which Annex D is silent or ambiguous (controls <0x20, unassigned codes, duplicate space/hyphen codes, MacRoman 0xDB and the Mac OS symbol codes outside the PDF Latin set) are not judged"],
    floors={"quick": {"evaluations": 4_000_000, "distinct": 1500}, "thorough": {"evaluations": 4_000_000, "distinct": 1500}},
    level_text="Exhaustive enumeration of the finite input space at run time: nothing is sampled, so any single wrong table entry is observed.",
    level_note="Trusted base: the hand-transcribed Annex D tables. Divergences of the pinned tree are listed individually in known_findings.jsonl; any other divergence is a violation.",
    design_ref="§5 C25",
)

# Properties deliberately not claimed (reason shown in MANIFEST.not_applicable).
NOT_APPLICABLE = {}
