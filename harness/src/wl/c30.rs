//! C30 — page resource names chosen by the user cannot break the page.
//! For a generated name and an entry point that accepts a name, author a one-page
//! document that registers a resource under that name and uses it in the page
//! content, write it (sampled writer configuration), and record what the library's
//! own reader sees. pyref/checks/c30.py reads the same file with the independent
//! reader and judges both views.
use crate::dump::canon_dict;
use crate::gen::docgen;
use crate::rec::hex;
use crate::{Ctx, Recorder, Rng};
use oxidize_pdf::graphics::{AxialShading, CalGrayColorSpace, CalibratedColor, Color, ColorSpace, ColorStop, FormXObject, Image, PageColorSpace, Point, ShadingDefinition};
use oxidize_pdf::parser::{ParseOptions, PdfReader};
use oxidize_pdf::text::Font;
use oxidize_pdf::{Document, Page};
use oxidize_pdf::geometry::Rectangle;
use serde_json::{json, Value};
use std::io::{Cursor, Write};

pub const ENTRY_POINTS: [&str; 6] = ["image", "form_xobject", "color_space", "shading", "font", "two_images"];

pub fn name_pool(r: &mut Rng, k: u64) -> (String, &'static str) {
    let simple = ["Im1", "Logo", "a", "X-1_2.b", "Name+Plus", "tilde~", "q!", "semi;colon", "quote'\"", "back\\slash", "at@", "dollar$", "star*", "caret^", "pipe|", "amp&", "equals=", "comma,", "question?"];
    let delims = ["my img", "a/b", "/lead", "paren(", "close)", "(both)", "lt<", "gt>", "<<dict>>", "br[", "br]", "brace{", "brace}", "pct%", "hash#", "hash#20", "#", "a#", "tab\there", " lead", "trail ", "two  spaces", "a b c d e"];
    let controls = ["lf\nin", "cr\rin", "crlf\r\nin", "ff\x0cin", "bell\x07", "del\x7f", "esc\x1b[0m"];
    let latin = ["café", "naïve", "ÿ", "\u{a0}nbsp", "±", "Ærø"];
    let bmp = ["图像", "картинка", "εικόνα", "画像1", "\u{feff}bom", "\u{200b}zw", "e\u{301}"];
    let astral = ["😀", "img😀1", "\u{10000}", "\u{10ffff}", "𝒳"];
    match k % 8 {
        0 => (r.pick(&simple).to_string(), "simple"),
        1 | 2 => (r.pick(&delims).to_string(), "delimiters_whitespace_hash"),
        3 => {
            if r.chance(1, 6) {
                (r.pick(&["nul\0in", "\0", "end\0"]).to_string(), "nul")
            } else {
                (r.pick(&controls).to_string(), "controls")
            }
        }
        4 => (r.pick(&latin).to_string(), "latin1"),
        5 => (r.pick(&bmp).to_string(), "bmp"),
        6 => (r.pick(&astral).to_string(), "astral"),
        _ => match r.below(4) {
            0 => (String::new(), "empty"),
            1 => ("n".repeat(127), "len127"),
            2 => ("long name ".repeat(30), "len300_with_spaces"),
            _ => {
                // random mixture
                let n = r.urange(1, 12);
                let pool: Vec<char> = "abcXYZ019 /#()<>[]{}%\t\n\\é中😀_-.".chars().collect(); // no NUL: class "nul" has it
                ((0..n).map(|_| *r.pick(&pool)).collect(), "mixed")
            }
        },
    }
}

fn tiny_image(r: &mut Rng) -> Image {
    let data: Vec<u8> = (0..2 * 2 * 3).map(|_| r.below(256) as u8).collect();
    Image::from_raw_data(data, 2, 2, ColorSpace::DeviceRGB, 8)
}

fn author(r: &mut Rng, ep: &str, name: &str, second: &str, font_bytes: &[u8]) -> Result<(Document, Vec<String>), String> {
    let mut doc = Document::new();
    let mut page = Page::new(300.0, 300.0);
    let mut used = vec![name.to_string()];
    match ep {
        "image" => {
            page.add_image(name, tiny_image(r));
            page.draw_image(name, 10.0, 10.0, 50.0, 50.0).map_err(|e| format!("draw_image: {e}"))?;
        }
        "two_images" => {
            // two names that would collide after naive escaping / truncation at the first bad byte
            page.add_image(name, tiny_image(r));
            page.add_image(second, tiny_image(r));
            page.draw_image(name, 10.0, 10.0, 50.0, 50.0).map_err(|e| format!("draw_image: {e}"))?;
            page.draw_image(second, 100.0, 10.0, 50.0, 50.0).map_err(|e| format!("draw_image: {e}"))?;
            used.push(second.to_string());
        }
        "form_xobject" => {
            let form = FormXObject::from_graphics_ops(Rectangle::new(oxidize_pdf::geometry::Point::new(0.0, 0.0), oxidize_pdf::geometry::Point::new(20.0, 20.0)), "0 0 20 20 re f");
            page.add_form_xobject(name, form).map_err(|e| format!("add_form_xobject: {e}"))?;
            page.graphics().draw_image(name, 10.0, 10.0, 1.0, 1.0);
        }
        "color_space" => {
            let cs = CalGrayColorSpace::new().with_gamma(2.2);
            page.add_color_space(name, PageColorSpace::from(&cs)).map_err(|e| format!("add_color_space: {e}"))?;
            page.graphics().set_fill_color_calibrated_named(name, CalibratedColor::Gray(0.5, cs)).rectangle(5.0, 5.0, 20.0, 20.0).fill();
        }
        "shading" => {
            let sh = AxialShading::new("sh".into(), Point::new(0.0, 0.0), Point::new(100.0, 0.0), vec![ColorStop::new(0.0, Color::rgb(1.0, 0.0, 0.0)), ColorStop::new(1.0, Color::rgb(0.0, 0.0, 1.0))]);
            page.add_shading(name, ShadingDefinition::Axial(sh)).map_err(|e| format!("add_shading: {e}"))?;
            page.graphics().paint_shading(name);
        }
        "font" => {
            doc.add_font_from_bytes(name, font_bytes.to_vec()).map_err(|e| format!("add_font_from_bytes: {e}"))?;
            page.text().set_font(Font::Custom(name.to_string()), 14.0).at(20.0, 200.0).write("Hello").map_err(|e| format!("write: {e}"))?;
        }
        _ => return Err("unknown entry point".into()),
    }
    doc.add_page(page);
    Ok((doc, used))
}

pub fn run(ctx: &Ctx, rec: &mut Recorder) -> Result<(), String> {
    let dir = ctx.out.join("cases");
    std::fs::create_dir_all(&dir).map_err(|e| e.to_string())?;
    let mut f = std::io::BufWriter::new(std::fs::File::create(dir.join(format!("cases-{}.jsonl", ctx.shard))).map_err(|e| e.to_string())?);
    let font_bytes = std::fs::read("/repo/test-pdfs/Roboto-Regular.ttf").map_err(|e| format!("font fixture: {e}"))?;
    let cfgs = docgen::configs();
    let ncases = ctx.qt(1_600u64, 24_000u64);
    for c in 0..ncases {
        if !ctx.mine(c) {
            continue;
        }
        let mut r = Rng::derive(ctx.seed, 30, c);
        let ep = ENTRY_POINTS[r.usize_below(ENTRY_POINTS.len())];
        let k = r.below(8);
        let (name, class) = name_pool(&mut r, k);
        // the partner of a two-name case differs only in the first irregular character or its escape
        let second = match r.below(4) {
            0 => name.replace(' ', "#20"),
            1 => name.split(|ch: char| !ch.is_ascii_alphanumeric()).next().unwrap_or("").to_string() + "x",
            2 => format!("{name}2"),
            _ => name.replace('#', "#23"),
        };
        let second = if second == name { format!("{name}_") } else { second };
        // configurations without object streams (those cost a second per open, see C02); one in 40 with
        let plain: Vec<usize> = (0..cfgs.len()).filter(|i| !cfgs[*i].1.use_object_streams).collect();
        let ci = if c % 40 == 7 { r.usize_below(cfgs.len()) } else { *r.pick(&plain) };
        let (cname, cfg) = cfgs[ci].clone();
        rec.evaluations += 1;
        rec.set_add("entry_point_x_class", format!("{ep}|{class}"));
        let id = format!("c30-{c}");
        let mut line = json!({"id": id, "entry_point": ep, "class": class, "name_hex": hex(name.as_bytes()), "config": cname, "seed": ctx.seed, "case": c});
        let authored = crate::mon::guarded(|| author(&mut r, ep, &name, &second, &font_bytes));
        let (mut doc, used) = match authored {
            Ok(Ok(x)) => x,
            Ok(Err(e)) => {
                // the API refused the name: acceptable ("cannot break the page")
                rec.count("api_rejected_name");
                line["rejected"] = json!(e);
                writeln!(f, "{}", line).ok();
                rec.case(id.as_bytes(), false);
                continue;
            }
            Err(p) => {
                rec.violation(format!("C30|panic|authoring|{}", p.site()), p.message.clone(), json!({"entry_point": ep, "name": name, "name_hex": hex(name.as_bytes())}));
                continue;
            }
        };
        line["names_hex"] = json!(used.iter().map(|n| hex(n.as_bytes())).collect::<Vec<_>>());
        let bytes = match crate::mon::guarded(|| docgen::write(&mut doc, cfg.clone())) {
            Ok(Ok(b)) => b,
            Ok(Err(e)) => {
                rec.count("writer_rejected_name");
                line["rejected"] = json!(format!("write: {e}"));
                writeln!(f, "{}", line).ok();
                rec.case(id.as_bytes(), false);
                continue;
            }
            Err(p) => {
                rec.violation(format!("C30|panic|writer|{}", p.site()), p.message.clone(), json!({"entry_point": ep, "name": name, "name_hex": hex(name.as_bytes()), "config": cname}));
                continue;
            }
        };
        let file = format!("{id}.pdf");
        crate::rec::write_file(&dir.join(&file), &bytes);
        line["file"] = json!(file);
        // the library's own view of the page
        let lib = crate::mon::guarded(|| -> Result<Value, String> {
            let reader = PdfReader::new_with_options(Cursor::new(bytes.clone()), ParseOptions::strict()).map_err(|e| format!("open: {e}"))?;
            let pdoc = reader.into_document();
            let page = pdoc.get_page(0).map_err(|e| format!("get_page: {e}"))?;
            let res = page.get_resources().map(|d| Value::Object(canon_dict(d, 0))).unwrap_or(Value::Null);
            let cs = pdoc.get_page_content_streams(&page).map_err(|e| format!("content: {e}"))?;
            let joined: Vec<u8> = cs.join(&b'\n');
            let ops = oxidize_pdf::parser::content::ContentParser::parse_content(&joined).map_err(|e| format!("content parse: {e}"))?;
            let mut named: Vec<Value> = Vec::new();
            for op in &ops {
                let dbg = format!("{op:?}");
                if dbg.starts_with("PaintXObject") || dbg.starts_with("SetFont") || dbg.starts_with("SetNonStrokingColorSpace") || dbg.starts_with("SetStrokingColorSpace") || dbg.starts_with("ShadingFill") || dbg.starts_with("SetGraphicsStateParams") {
                    named.push(json!(dbg));
                }
            }
            Ok(json!({"resources": res, "content_hex": hex(&joined), "named_ops": named}))
        });
        match lib {
            Ok(Ok(v)) => line["lib"] = v,
            Ok(Err(e)) => line["lib_err"] = json!(e),
            Err(p) => line["lib_panic"] = json!(format!("{} {}", p.site(), p.message)),
        }
        writeln!(f, "{}", line).ok();
        rec.case(id.as_bytes(), true);
        if rec.samples.len() < 2 {
            rec.sample(json!({"case": c, "entry_point": ep, "name": name, "class": class}));
        }
    }
    Ok(())
}
