"""Checkers over DOC + OBS output: C02 (content round trip) and C03 (structural validity)."""
import glob, json, os, sys, zlib
from multiprocessing import Pool
from .common import args, load_obs
from .. import pdf, validate
from ..pdf import Name, String, Ref, Stream, PdfError
from ..recpy import Recorder

RECOVERY_EVENTS = ("xref.recovery", "reader.manual_reconstruction", "reader.extract_object_manually", "reader.synthetic_object",
                   "reader.find_catalog_by_scan", "reader.page_count_fallback")


def load_doc_cases(d):
    cases = []
    for fn in sorted(glob.glob(os.path.join(d, "cases*.jsonl"))):
        for line in open(fn):
            if line.strip():
                cases.append(json.loads(line))
    return cases


def cfgclass(c):
    return c["config"].rsplit("|", 1)[0]


def tok_eq(a, b):
    if type(a) != type(b) and not (isinstance(a, (int, float)) and isinstance(b, (int, float)) and not isinstance(a, bool) and not isinstance(b, bool)):
        return False
    if isinstance(a, (int, float)) and not isinstance(a, bool):
        return abs(float(a) - float(b)) < 1e-9
    if isinstance(a, list):
        return len(a) == len(b) and all(tok_eq(x, y) for x, y in zip(a, b))
    if isinstance(a, dict):
        return a.keys() == b.keys() and all(tok_eq(a[k], b[k]) for k in a)
    return a == b


def ops_equal(x, y):
    if len(x) != len(y):
        return "operator count %d vs %d" % (len(x), len(y))
    for i, ((o1, a1), (o2, a2)) in enumerate(zip(x, y)):
        if o1 != o2 or not tok_eq(a1, a2):
            return "operator %d: %r %r vs %r %r" % (i, a1, o1, a2, o2)
    return None


def image_samples(doc, xo):
    """-> (w, h, ncomp, samples bytes, alpha bytes or None)"""
    d = xo.dict
    w, h = doc.resolve(d.get(b"Width")), doc.resolve(d.get(b"Height"))
    cs = doc.resolve(d.get(b"ColorSpace"))
    n = {b"DeviceGray": 1, b"DeviceRGB": 3, b"DeviceCMYK": 4}.get(cs.v if isinstance(cs, Name) else b"", None)
    data = pdf.decode_stream(xo, doc.resolve)
    alpha = None
    sm = doc.resolve(d.get(b"SMask"))
    if isinstance(sm, Stream):
        alpha = pdf.decode_stream(sm, doc.resolve)
    return w, h, n, data, alpha


def analyse(job):
    """worker: returns list of (prop, sig, detail, witness) + counters"""
    d, c, obs = job
    out = []
    cnt = {}
    cc = cfgclass(c)
    enc = c.get("enc")
    path = os.path.join(d, c["file"])
    wit = {"case": c["id"], "config": c["config"], "enc": enc, "program_file": c.get("program_file")}
    if "write_error" in c:
        out.append(("C02", "C02|%s|writer_returns_error" % cc, c["write_error"], wit))
        return out, cnt, None
    data = open(path, "rb").read()
    try:
        prog = json.load(open(os.path.join(d, c["program_file"])))
        wit["program"] = prog if len(json.dumps(prog)) < 20000 else "see program_file"
    except Exception:
        pass
    pw = None
    if enc:
        from .. import crypto
        pw = crypto.utf8_password(enc["user_pw"]) if enc["strength"] == "aes_256" else enc["user_pw"].encode("utf-8")
    # ---------------- C03: structure
    probs, doc = validate.validate(data, expect_encrypted=bool(enc), password=pw)
    enccls = ("enc_" + enc["strength"]) if enc else "plain"
    for rule, msg in probs:
        if rule == "object_unreadable" and enc and "obj_streams=1" in cc and ("AES blob length" in msg or "decompressing" in msg):
            # one defect, one signature: in an encrypted document the library writes its object streams
            # unencrypted (and encrypts the strings of the member objects one by one instead)
            out.append(("C03", "C03|object_stream_not_encrypted_in_encrypted_document", "%s: %s" % (c["id"], msg), wit))
            continue
        out.append(("C03", "C03|%s|%s|%s" % (rule, cc, enccls), "%s: %s" % (c["id"], msg), wit))
    for preset in ("strict", "default"):
        o = obs.get(preset)
        if o is None:
            continue
        cnt["obs"] = cnt.get("obs", 0) + 1
        if "panic" in o:
            out.append(("C03", "C03|panic_reading_own_output|%s" % o["panic"], "%s: %s" % (c["id"], o.get("panic_msg")), wit))
            continue
        if o.get("open_err"):
            out.append(("C03", "C03|library_%s_reader_cannot_open_own_output|%s|%s" % (preset, cc, enccls), "%s: %s" % (c["id"], o["open_err"]), wit))
            continue
        evs = [e for e in RECOVERY_EVENTS if o.get("events", {}).get(e)]
        if evs:
            cfg2 = ("obj_streams=1" if "obj_streams=1" in cc else cc) if enc else cc
            out.append(("C03", "C03|library_%s_reader_fell_back_to_recovery|%s|%s|%s" % (preset, evs[0], cfg2, "encrypted" if enc else "plain"), "%s: events %r" % (c["id"], o["events"]), wit))
        else:
            cnt["opened_without_recovery"] = cnt.get("opened_without_recovery", 0) + 1
        bad = [k for k, v in o.get("objects", {}).items() if isinstance(v, dict) and "err" in v and "not found" not in v["err"].lower()]
        if bad and not enc:
            out.append(("C03", "C03|library_%s_reader_cannot_resolve_object|%s|%s" % (preset, cc, enccls), "%s: object %s: %s" % (c["id"], bad[0], o["objects"][bad[0]]["err"]), wit))
    # ---------------- C02: content
    if enc:
        return out, cnt, None          # encrypted files are compared by C05
    model = c["model"]
    if doc is None:
        out.append(("C02", "C02|%s|independent_reader_rejects_file" % cc, "%s: %s" % (c["id"], probs[0][1] if probs else "?"), wit))
    else:
        try:
            pages = doc.pages()
            if len(pages) != len(model["pages"]):
                out.append(("C02", "C02|%s|ref|page_count" % cc, "%s: %d pages, authored %d" % (c["id"], len(pages), len(model["pages"])), wit))
            for i, ((num, pg, inh), mp) in enumerate(zip(pages, model["pages"])):
                mb = doc.resolve(inh.get(b"MediaBox"))
                if not (isinstance(mb, list) and len(mb) == 4 and all(abs(float(a) - b) < 0.01 for a, b in zip(mb, [0, 0, mp["w"], mp["h"]]))):
                    out.append(("C02", "C02|%s|ref|MediaBox" % cc, "%s page %d: %r, authored %sx%s" % (c["id"], i, mb, mp["w"], mp["h"]), wit))
                rot = doc.resolve(inh.get(b"Rotate")) or 0
                if rot % 360 != mp["rot"] % 360:
                    out.append(("C02", "C02|%s|ref|Rotate" % cc, "%s page %d: %r, authored %r" % (c["id"], i, rot, mp["rot"]), wit))
                want_ops = pdf.content_ops(bytes.fromhex(mp["content_hex"]))
                got_ops = pdf.content_ops(doc.page_content(pg))
                diff = ops_equal(got_ops, want_ops)
                if diff:
                    out.append(("C02", "C02|%s|ref|content_operators_differ" % cc, "%s page %d: %s" % (c["id"], i, diff), wit))
                res = doc.resolve(inh.get(b"Resources")) or {}
                xos = doc.resolve(res.get(b"XObject")) or {}
                for im in mp["images"]:
                    xo = doc.resolve(xos.get(im["name"].encode()))
                    if not isinstance(xo, Stream):
                        out.append(("C02", "C02|%s|ref|image_missing" % cc, "%s page %d image %s not in /XObject" % (c["id"], i, im["name"]), wit))
                        continue
                    w, h, n, samples, alpha = image_samples(doc, xo)
                    src = bytes.fromhex(im["data"])
                    if im["kind"] == "rgba":
                        rgb = bytes(b for k, b in enumerate(src) if k % 4 != 3)
                        a = src[3::4]
                        ok = (w, h, n) == (im["w"], im["h"], 3) and samples == rgb and (alpha == a or (alpha is None and all(x == 255 for x in a)))
                    else:
                        ok = (w, h, n) == (im["w"], im["h"], 3 if im["kind"] == "rgb" else 1) and samples == src
                    cnt["images_compared"] = cnt.get("images_compared", 0) + 1
                    if not ok:
                        out.append(("C02", "C02|%s|ref|image_samples_differ|%s" % (cc, im["kind"]), "%s page %d image %s: %sx%sx%s, %d sample bytes vs %d supplied" % (c["id"], i, im["name"], w, h, n, len(samples), len(src)), wit))
                annots = doc.resolve(pg.get(b"Annots")) or []
                if len(annots) != len(mp["annots"]):
                    out.append(("C02", "C02|%s|ref|annotation_count" % cc, "%s page %d: %d annotations, authored %d" % (c["id"], i, len(annots), len(mp["annots"])), wit))
        except PdfError as e:
            out.append(("C02", "C02|%s|independent_reader_rejects_file" % cc, "%s: %s" % (c["id"], e), wit))
    for preset in ("strict", "default"):
        o = obs.get(preset)
        if o is None or "panic" in o or o.get("open_err"):
            continue            # reported under C03
        if o.get("page_count") != len(model["pages"]):
            out.append(("C02", "C02|%s|lib_%s|page_count" % (cc, preset), "%s: page_count %r, authored %d" % (c["id"], o.get("page_count"), len(model["pages"])), wit))
            continue
        for i, (p, mp) in enumerate(zip(o.get("pages", []), model["pages"])):
            if "err" in p:
                out.append(("C02", "C02|%s|lib_%s|get_page_error" % (cc, preset), "%s page %d: %s" % (c["id"], i, p["err"]), wit))
                continue
            if not all(abs(a - b) < 0.01 for a, b in zip(p["media_box"], [0, 0, mp["w"], mp["h"]])):
                out.append(("C02", "C02|%s|lib_%s|MediaBox" % (cc, preset), "%s page %d: %r, authored %sx%s" % (c["id"], i, p["media_box"], mp["w"], mp["h"]), wit))
            if (p["rotation"] - mp["rot"]) % 360:
                out.append(("C02", "C02|%s|lib_%s|Rotate" % (cc, preset), "%s page %d: %r, authored %r" % (c["id"], i, p["rotation"], mp["rot"]), wit))
            if "content_hex" in p:
                try:
                    diff = ops_equal(pdf.content_ops(bytes.fromhex(p["content_hex"])), pdf.content_ops(bytes.fromhex(mp["content_hex"])))
                except PdfError as e:
                    diff = "untokenisable: %s" % e
                if diff:
                    out.append(("C02", "C02|%s|lib_%s|content_operators_differ" % (cc, preset), "%s page %d: %s" % (c["id"], i, diff), wit))
            elif "content_err" in p:
                out.append(("C02", "C02|%s|lib_%s|content_unreadable" % (cc, preset), "%s page %d: %s" % (c["id"], i, p["content_err"]), wit))
    nops = sum(len(pdf.content_ops(bytes.fromhex(mp["content_hex"]))) for mp in model["pages"])
    nontrivial = (len(model["pages"]) >= 2 or any(mp["images"] for mp in model["pages"])) and nops >= 10
    return out, cnt, nontrivial


def main():
    out, seed, tier, kv = args()
    prop = kv["prop"]
    rec = Recorder("py")
    e = validate.selftest()
    if e:
        rec.inconc("validator selftest: %r" % e); rec.write(out); return
    d = os.path.join(out, "cases")
    cases = load_doc_cases(d)
    obs = load_obs(out)
    jobs = [(d, c, obs.get(c["id"], {})) for c in cases if c.get("which") in (None, "user")]
    import gc
    with Pool(min(16, os.cpu_count() or 4), initializer=gc.disable, maxtasksperchild=40) as pool:
        for (c, (viol, cnt, nontrivial)) in zip([j[1] for j in jobs], pool.imap(analyse, jobs, chunksize=2)):
            rec.case(c["id"], nontrivial=bool(nontrivial) if prop == "C02" else True)
            rec.set_add("configs", c["config"])
            for p, sig, detail, wit in viol:
                if p == prop:
                    rec.violation(sig, detail, wit)
            for k, n in cnt.items():
                rec.count(k, n)
            if len(rec.samples) < 3:
                rec.sample({"case": c["id"], "config": c["config"], "enc": c.get("enc"), "pages": len(c.get("model", {}).get("pages", [])), "file": c["file"]})
    rec.write(out)


if __name__ == "__main__":
    main()
