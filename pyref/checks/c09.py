"""C09 checker (independent reader side): the bytes each serialiser produced must be one
well-formed value for a strict reader and denote the expected value."""
import glob, json, os
from multiprocessing import Pool
from .common import args
from .. import pdf
from ..pdf import Name, String, Ref, PdfError
from ..recpy import Recorder


def same(exp, got, path=""):
    if exp is None:
        return None if got is None else "%s: expected null, read %r" % (path, got)
    if isinstance(exp, bool):
        return None if got is exp else "%s: expected %r, read %r" % (path, exp, got)
    if isinstance(exp, list):
        if not isinstance(got, list) or len(got) != len(exp):
            return "%s: array of %d expected, read %r" % (path, len(exp), got if not isinstance(got, list) else len(got))
        for i, (a, b) in enumerate(zip(exp, got)):
            d = same(a, b, "%s[%d]" % (path, i))
            if d:
                return d
        return None
    if "i" in exp:
        return None if (isinstance(got, int) and not isinstance(got, bool) and got == exp["i"]) else "%s: integer %r expected, read %r" % (path, exp["i"], got)
    if "r" in exp:
        if isinstance(got, (int, float)) and not isinstance(got, bool) and abs(float(got) - exp["r"]) <= 5.1e-7 + abs(exp["r"]) * 1e-12:
            return None
        return "%s: real %r expected, read %r" % (path, exp["r"], got)
    if "text" in exp:
        if isinstance(got, String) and pdf.text_string(got.v) == exp["text"]:
            return None
        return "%s: text string %r expected, read %r" % (path, exp["text"][:40], got)
    if "s" in exp:
        return None if isinstance(got, String) and got.v.hex() == exp["s"] else "%s: string bytes %s expected, read %r" % (path, exp["s"][:40], got)
    if "n" in exp:
        return None if isinstance(got, Name) and got.v.hex() == exp["n"] else "%s: name %r expected, read %r" % (path, bytes.fromhex(exp["n"]), got)
    if "ref" in exp:
        return None if isinstance(got, Ref) and [got.num, got.gen] == exp["ref"] else "%s: reference expected, read %r" % (path, got)
    if "d" in exp:
        if not isinstance(got, dict) or len(got) != len(exp["d"]):
            return "%s: dictionary of %d keys expected, read %r" % (path, len(exp["d"]), got if not isinstance(got, dict) else sorted(got))
        for k, v in exp["d"].items():
            kb = bytes.fromhex(k)
            if kb not in got:
                return "%s: key %r missing (keys read: %r)" % (path, kb, sorted(got)[:6])
            d = same(v, got[kb], path + "/" + kb.decode("latin-1"))
            if d:
                return d
        return None
    return "%s: unknown expectation" % path


def culprit(exp):
    """which construct could be responsible"""
    found = set()

    def walk(e):
        if isinstance(e, list):
            for x in e:
                walk(x)
        elif isinstance(e, dict):
            if "n" in e:
                b = bytes.fromhex(e["n"])
                if any(c >= 0x80 for c in b):
                    found.add("name_with_non_ascii_bytes")
                elif b == b"" or any(c <= 0x20 or c == 0x7F or c in b"()<>[]{}/%#" for c in b):
                    found.add("name_with_delimiter_whitespace_or_hash")
            elif "r" in e and (abs(e["r"]) >= 1e15 or (0 < abs(e["r"]) < 1e-6)):
                found.add("extreme_real")
            elif "text" in e and any(ord(c) > 127 for c in e["text"]):
                found.add("non_ascii_text_string")
            elif "d" in e:
                for k, v in e["d"].items():
                    walk({"n": k})
                    walk(v)
    walk(exp)
    for k in ("name_with_delimiter_whitespace_or_hash", "name_with_non_ascii_bytes", "extreme_real", "non_ascii_text_string"):
        if k in found:
            return k
    return "other"


def work(fn):
    res = []
    n = 0
    for line in open(fn):
        d = json.loads(line)
        n += 1
        b = bytes.fromhex(d["bytes"])
        try:
            lx = pdf.Lexer(b, 0, strict=True)
            got = lx.obj()
            rest = lx.token()
            if rest is not None:
                res.append(("C09|%s|ref|trailing_tokens_after_value|%s" % (d["ser"], culprit(d["expect"])), "%s: %r follows the value" % (d["id"], rest), d["id"], d["bytes"][:400]))
                continue
            diff = same(d["expect"], got)
            if diff:
                res.append(("C09|%s|ref|value_differs|%s" % (d["ser"], culprit(d["expect"])), "%s: %s" % (d["id"], diff), d["id"], d["bytes"][:400]))
        except PdfError as e:
            res.append(("C09|%s|ref|not_well_formed|%s" % (d["ser"], culprit(d["expect"])), "%s: %s" % (d["id"], e), d["id"], d["bytes"][:400]))
        except RecursionError:
            res.append(("inconc", "recursion limit in reference on %s" % d["id"], d["id"], ""))
    return res, n


def main():
    out, seed, tier, kv = args()
    rec = Recorder("py")
    files = sorted(glob.glob(os.path.join(out, "c09-*.jsonl")))
    with Pool(min(16, max(1, len(files)))) as pool:
        for res, n in pool.imap(work, files):
            rec.count("serialisations_read_by_reference", n)
            for sig, detail, cid, hx in res:
                if sig == "inconc":
                    rec.inconc(detail)
                else:
                    rec.violation(sig, detail, {"case": cid, "bytes_hex": hx, "seed": seed})
    rec.write(out)


if __name__ == "__main__":
    main()
