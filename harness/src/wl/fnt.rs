//! FNT — font workloads shared by C12 (subsetting keeps every requested glyph intact) and
//! C13 (text in embedded fonts is recoverable exactly). The Rust stage drives the library
//! (subset_font / subset_font_by_gids, or authoring + writing + the library's own extraction)
//! and dumps what it produced; pyref/checks/c12.py and c13.py judge with the independent
//! sfnt reader (pyref/font.py) and PDF reader.
use crate::gen::docgen;
use crate::rec::hex;
use crate::{Ctx, Recorder, Rng};
use oxidize_pdf::parser::{PdfDocument, PdfReader};
use oxidize_pdf::text::fonts::truetype_subsetter::{subset_font, subset_font_by_gids};
use oxidize_pdf::text::Font;
use oxidize_pdf::{Document, Page};
use serde_json::{json, Value};
use std::collections::HashSet;
use std::io::{Cursor, Write};

pub const FONTS: [(&str, &str); 6] = [
    ("roboto", "/repo/test-pdfs/Roboto-Regular.ttf"),
    ("dejavu_sans", "/usr/share/fonts/truetype/dejavu/DejaVuSans.ttf"),
    ("dejavu_serif_italic", "/usr/share/fonts/truetype/dejavu/DejaVuSerif-Italic.ttf"),
    ("dejavu_mono_bold", "/usr/share/fonts/truetype/dejavu/DejaVuSansMono-Bold.ttf"),
    ("dejavu_condensed", "/usr/share/fonts/truetype/dejavu/DejaVuSansCondensed.ttf"),
    ("sourcesans3_cff", "/repo/test-pdfs/SourceSans3-Regular.otf"),
];

fn pool() -> Vec<char> {
    let mut v: Vec<char> = (0x20u32..0x7F).filter_map(char::from_u32).collect();
    v.extend((0xA1u32..0x100).filter_map(char::from_u32));
    v.extend((0x391u32..0x3CA).filter_map(char::from_u32).filter(|c| *c != '\u{3a2}'));
    v.extend((0x410u32..0x450).filter_map(char::from_u32));
    v.extend("ŁłŒœŠšŸŽžƒ–—‘’“”•…€™−≤≥".chars());
    v
}

/// C12 only: Latin Extended-A/B and Latin Extended Additional as well (composites of composites in the
/// DejaVu faces, e.g. U+01D5, U+1EBF)
fn wide_pool() -> Vec<char> {
    let mut v = pool();
    v.extend((0x100u32..0x250).filter_map(char::from_u32));
    v.extend((0x1E00u32..0x1F00).filter_map(char::from_u32));
    v
}

fn load_fonts() -> Vec<(&'static str, &'static str, Vec<u8>)> {
    FONTS.iter().filter_map(|(n, p)| std::fs::read(p).ok().filter(|b| b.len() > 1000).map(|b| (*n, *p, b))).collect()
}

pub fn run(ctx: &Ctx, rec: &mut Recorder) -> Result<(), String> {
    let flavor = ctx.arg("flavor").unwrap_or("c12").to_string();
    let dir = ctx.out.join("cases");
    std::fs::create_dir_all(&dir).map_err(|e| e.to_string())?;
    let mut f = std::io::BufWriter::new(std::fs::File::create(dir.join(format!("cases-{}.jsonl", ctx.shard))).map_err(|e| e.to_string())?);
    let fonts = load_fonts();
    if fonts.len() < 2 {
        return Err("font fixtures missing".into());
    }
    let pool = if flavor == "c12" { wide_pool() } else { pool() };
    let ncases = if flavor == "c12" { ctx.qt(500u64, 30_000u64) } else { ctx.qt(320u64, 20_000u64) };
    for c in 0..ncases {
        if !ctx.mine(c) {
            continue;
        }
        let mut r = Rng::derive(ctx.seed, if flavor == "c12" { 12 } else { 13 }, c);
        rec.evaluations += 1;
        let (fname, fpath, fdata) = r.pick(&fonts).clone();
        rec.set_add("fonts", fname);
        if flavor == "c12" {
            if c % 4 == 3 && fname != "sourcesans3_cff" {
                // glyph-driven subsetting
                let n = *r.pick(&[0usize, 1, 2, 10, 60, 400]);
                let gids: HashSet<u16> = (0..n).map(|_| r.below(900) as u16).collect();
                let fd = fdata.clone();
                let res = crate::mon::guarded(|| subset_font_by_gids(fd, &gids));
                let mut line = json!({"id": format!("c12-{c}"), "case": c, "seed": ctx.seed, "api": "subset_font_by_gids", "font": fname, "font_path": fpath, "gids": gids.iter().collect::<Vec<_>>()});
                match res {
                    Ok(Ok(s)) => {
                        let file = format!("sub-{c}.bin");
                        crate::rec::write_file(&dir.join(&file), &s.font_data);
                        line["file"] = json!(file);
                        line["old_to_new"] = json!(s.old_to_new.iter().map(|(k, v)| (k.to_string(), *v)).collect::<std::collections::BTreeMap<_, _>>());
                    }
                    Ok(Err(e)) => line["error"] = json!(e.to_string()),
                    Err(p) => {
                        rec.violation(format!("C12|subset_font_by_gids|panic|{}", p.site()), p.message.clone(), json!({"case": c, "seed": ctx.seed, "font": fname, "gids": gids.iter().collect::<Vec<_>>()}));
                        continue;
                    }
                }
                writeln!(f, "{}", line).ok();
                rec.case(format!("{c}").as_bytes(), true);
                continue;
            }
            let n = *r.pick(&[0usize, 1, 2, 9, 10, 11, 30, 120, 400]);
            let mut chars: HashSet<char> = (0..n).map(|_| *r.pick(&pool)).collect();
            if r.chance(1, 4) {
                chars.extend(['中', '\u{1F600}', '\u{FFFF}'].iter().take(r.urange(1, 3))); // characters the font lacks
            }
            if r.chance(1, 10) {
                chars = pool.iter().copied().collect();
            }
            let fd = fdata.clone();
            let cs = chars.clone();
            let res = crate::mon::guarded(|| subset_font(fd, &cs));
            let mut cps: Vec<u32> = chars.iter().map(|c| *c as u32).collect();
            cps.sort();
            let mut line = json!({"id": format!("c12-{c}"), "case": c, "seed": ctx.seed, "api": "subset_font", "font": fname, "font_path": fpath, "chars": cps});
            match res {
                Ok(Ok(s)) => {
                    let file = format!("sub-{c}.bin");
                    crate::rec::write_file(&dir.join(&file), &s.font_data);
                    line["file"] = json!(file);
                    line["is_raw_cff"] = json!(s.is_raw_cff);
                    line["unchanged"] = json!(s.font_data == fdata);
                    line["glyph_mapping"] = json!(s.glyph_mapping.iter().map(|(k, v)| (k.to_string(), *v)).collect::<std::collections::BTreeMap<_, _>>());
                }
                Ok(Err(e)) => line["error"] = json!(e.to_string()),
                Err(p) => {
                    rec.violation(format!("C12|subset_font|panic|{}", p.site()), p.message.clone(), json!({"case": c, "seed": ctx.seed, "font": fname, "chars": cps}));
                    continue;
                }
            }
            writeln!(f, "{}", line).ok();
            rec.case(format!("{c}").as_bytes(), true);
        } else {
            // C13: author text in one or two embedded fonts
            let mut doc = Document::new();
            let mut used_fonts: Vec<(String, &str, &str)> = vec![("Emb1".to_string(), fname, fpath)];
            if let Err(e) = doc.add_font_from_bytes("Emb1", fdata.clone()) {
                writeln!(f, "{}", json!({"id": format!("c13-{c}"), "case": c, "seed": ctx.seed, "font": fname, "rejected": e.to_string()})).ok();
                continue;
            }
            if r.chance(1, 3) {
                let (n2, p2, d2) = r.pick(&fonts).clone();
                if doc.add_font_from_bytes("Emb2", d2).is_ok() {
                    used_fonts.push(("Emb2".to_string(), n2, p2));
                }
            }
            let npages = r.urange(1, 3);
            let mut pages_model: Vec<Vec<Value>> = Vec::new();
            let mut authoring_errors = Vec::new();
            for _ in 0..npages {
                let mut page = Page::a4();
                let mut shows = Vec::new();
                let mut y = 780.0;
                for _ in 0..r.urange(1, 6) {
                    let (res_name, fkey, _) = r.pick(&used_fonts).clone();
                    let n = r.urange(1, 24);
                    let mut s: String = match r.below(5) {
                        0 => (0..n).map(|_| *r.pick(&pool[..95])).collect(),                // ASCII incl. spaces
                        1 => { let ch = *r.pick(&pool); std::iter::repeat(ch).take(n).collect() } // repeated character
                        _ => (0..n).map(|_| *r.pick(&pool)).collect(),
                    };
                    if s.trim().is_empty() {
                        s = "x".into();
                    }
                    let size = *r.pick(&[9.0, 12.0, 18.0]);
                    // a third of the strings are drawn through the graphics context (its own character tracking)
                    let via_graphics = r.chance(1, 3);
                    let res = if via_graphics {
                        page.graphics().set_custom_font(&res_name, size).draw_text(&s, 50.0, y).map(|_| ()).map_err(|e| e.to_string())
                    } else {
                        page.text().set_font(Font::Custom(res_name.clone()), size).at(50.0, y).write(&s).map(|_| ()).map_err(|e| e.to_string())
                    };
                    match res {
                        Ok(_) => shows.push(json!({"text": s, "font": fkey, "res": res_name, "size": size, "api": if via_graphics { "graphics" } else { "text" }})),
                        Err(e) => authoring_errors.push(e),
                    }
                    y -= 30.0;
                }
                doc.add_page(page);
                pages_model.push(shows);
            }
            let cfgs = docgen::configs();
            let plain: Vec<usize> = (0..cfgs.len()).filter(|i| !cfgs[*i].1.use_object_streams).collect();
            let (cname, cfg) = cfgs[*r.pick(&plain)].clone();
            let bytes = match crate::mon::guarded(|| docgen::write(&mut doc, cfg)) {
                Ok(Ok(b)) => b,
                Ok(Err(e)) => {
                    writeln!(f, "{}", json!({"id": format!("c13-{c}"), "case": c, "seed": ctx.seed, "font": fname, "write_error": e, "config": cname, "pages": pages_model})).ok();
                    continue;
                }
                Err(p) => {
                    rec.violation(format!("C13|panic|writer|{}", p.site()), p.message.clone(), json!({"case": c, "seed": ctx.seed, "font": fname, "pages": pages_model}));
                    continue;
                }
            };
            let file = format!("c13-{c}.pdf");
            crate::rec::write_file(&dir.join(&file), &bytes);
            // the library's own extraction
            let b2 = bytes.clone();
            let lib = crate::mon::guarded(|| -> Result<Vec<String>, String> {
                let d = PdfReader::new(Cursor::new(b2)).map(PdfDocument::new).map_err(|e| e.to_string())?;
                // line-end hyphens are merged away by default (by design): not what this check is about
                let opts = oxidize_pdf::text::ExtractionOptions { merge_hyphenated: false, ..Default::default() };
                d.extract_text_with_options(opts).map(|v| v.into_iter().map(|t| t.text).collect()).map_err(|e| e.to_string())
            });
            let libv = match lib {
                Ok(Ok(v)) => json!(v),
                Ok(Err(e)) => json!({"err": e}),
                Err(p) => json!({"panic": format!("{} {}", p.site(), p.message)}),
            };
            writeln!(f, "{}", json!({"id": format!("c13-{c}"), "case": c, "seed": ctx.seed, "file": file, "config": cname, "fonts": used_fonts.iter().map(|(r, k, p)| json!({"res": r, "font": k, "path": p})).collect::<Vec<_>>(),
                "pages": pages_model, "authoring_errors": authoring_errors, "lib_text": libv, "pdf_len": bytes.len(), "head_hex": hex(&bytes[..bytes.len().min(16)])})).ok();
            rec.case(format!("{c}").as_bytes(), true);
        }
    }
    Ok(())
}
