"""Independent PDF *writer*: emits files byte by byte from a description, with
classic tables or xref streams, object streams and incremental revisions."""
import zlib
from .pdf import Name, String, Ref, Stream

_REG = set(range(0x21, 0x7F)) - set(b"()<>[]{}/%#")


def ser_name(b):
    out = bytearray(b"/")
    for c in b:
        if c in _REG:
            out.append(c)
        else:
            out += b"#%02X" % c
    return bytes(out)


def ser_string(s):
    if s.hex:
        return b"<" + s.v.hex().upper().encode() + b">"
    out = bytearray(b"(")
    for c in s.v:
        if c in b"()\\":
            out += b"\\" + bytes([c])
        elif c == 0x0D:
            out += b"\\r"
        elif c == 0x0A:
            out += b"\\n"
        elif c < 0x20 or c > 0x7E:
            out += b"\\%03o" % c
        else:
            out.append(c)
    out += b")"
    return bytes(out)


def ser_real(x):
    s = ("%.6f" % x).rstrip("0").rstrip(".")
    if s in ("-0", ""):
        s = "0"
    return s.encode()


def ser(o):
    if o is None:
        return b"null"
    if o is True:
        return b"true"
    if o is False:
        return b"false"
    if isinstance(o, int):
        return b"%d" % o
    if isinstance(o, float):
        return ser_real(o)
    if isinstance(o, Name):
        return ser_name(o.v)
    if isinstance(o, String):
        return ser_string(o)
    if isinstance(o, Ref):
        return b"%d %d R" % (o.num, o.gen)
    if isinstance(o, list):
        return b"[" + b" ".join(ser(x) for x in o) + b"]"
    if isinstance(o, dict):
        return b"<<" + b"".join(ser_name(k) + b" " + ser(v) + b" " for k, v in o.items()) + b">>"
    raise TypeError("cannot serialise %r" % (o,))


def ser_indirect(num, gen, o):
    if isinstance(o, Stream):
        d = dict(o.dict)
        d[b"Length"] = len(o.raw)
        return _header(num, gen) + ser(d) + b"\nstream\n" + o.raw + b"\nendstream\nendobj\n"
    return _header(num, gen) + ser(o) + b"\nendobj\n"


def _header(num, gen):
    """'N G obj' with the white space real producers use: mostly single spaces, every seventh object a TAB
    between the numbers, every eleventh two spaces (any PDF white space separates tokens)"""
    if num % 7 == 3:
        return b"%d\t%d obj\n" % (num, gen)
    if num % 11 == 5:
        return b"%d  %d obj\n" % (num, gen)
    return b"%d %d obj\n" % (num, gen)


class Writer:
    def __init__(self, version=b"1.7", binary_comment=True):
        self.buf = bytearray(b"%PDF-" + version + b"\n")
        if binary_comment:
            self.buf += b"%\xe2\xe3\xcf\xd3\n"
        self.prev = None
        self.size = 1
        self.rev = None
        self.startxrefs = []

    def begin(self):
        self.rev = {}

    def put(self, num, gen, obj):
        """write an indirect object now; returns its offset"""
        off = len(self.buf)
        self.buf += ser_indirect(num, gen, obj)
        self.rev[num] = ("n", off, gen)
        self.size = max(self.size, num + 1)
        return off

    def put_raw(self, num, gen, raw_bytes):
        off = len(self.buf)
        self.buf += raw_bytes
        self.rev[num] = ("n", off, gen)
        self.size = max(self.size, num + 1)
        return off

    def free(self, num, next_gen, next_free=0):
        self.rev[num] = ("f", next_free, next_gen)
        self.size = max(self.size, num + 1)

    def put_objstm(self, stm_num, members, compress=True, extends=None):
        """members: [(num, obj)] (all generation 0). Writes the object stream as object stm_num."""
        head = bytearray()
        body = bytearray()
        for num, o in members:
            head += b"%d %d " % (num, len(body))
            body += ser(o) + b"\n"
        data = bytes(head) + bytes(body)
        d = {b"Type": Name(b"ObjStm"), b"N": len(members), b"First": len(head)}
        if extends is not None:
            d[b"Extends"] = Ref(extends, 0)
        if compress:
            d[b"Filter"] = Name(b"FlateDecode")
            data = zlib.compress(data)
        self.put(stm_num, 0, Stream(d, data))
        for i, (num, _) in enumerate(members):
            self.rev[num] = ("c", stm_num, i)
            self.size = max(self.size, num + 1)

    def end(self, kind, root, info=None, extra=None, xref_num=None, ids=None, w=None, compress_xref=True, first=False, xrefstm_hybrid=None):
        """finish the revision with a classic table ('table') or an xref stream ('stream')."""
        tr = {b"Size": self.size, b"Root": root}
        if info is not None:
            tr[b"Info"] = info
        if ids is not None:
            tr[b"ID"] = ids
        if extra:
            tr.update(extra)
        if self.prev is not None:
            tr[b"Prev"] = self.prev
        if first and 0 not in self.rev:
            self.rev[0] = ("f", 0, 65535)
        if kind == "table":
            off = len(self.buf)
            out = bytearray(b"xref\n")
            nums = sorted(n for n, e in self.rev.items() if e[0] != "c")
            i = 0
            while i < len(nums):
                j = i
                while j + 1 < len(nums) and nums[j + 1] == nums[j] + 1:
                    j += 1
                out += b"%d %d\n" % (nums[i], j - i + 1)
                for n in nums[i:j + 1]:
                    k, a, g = self.rev[n]
                    out += b"%010d %05d %s \n" % (a, g, k.encode())
                i = j + 1
            if xrefstm_hybrid is not None:
                tr[b"XRefStm"] = xrefstm_hybrid
            out += b"trailer\n" + ser(tr) + b"\n"
            self.buf += out
        else:
            assert xref_num is not None
            self.size = max(self.size, xref_num + 1)
            tr[b"Size"] = self.size
            off = len(self.buf)
            self.rev[xref_num] = ("n", off, 0)
            nums = sorted(self.rev)
            index = []
            i = 0
            while i < len(nums):
                j = i
                while j + 1 < len(nums) and nums[j + 1] == nums[j] + 1:
                    j += 1
                index += [nums[i], j - i + 1]
                i = j + 1
            maxa = max([e[1] for e in self.rev.values()] + [1])
            w = w or [1, max(1, (maxa.bit_length() + 7) // 8), 2]
            data = bytearray()
            for n in nums:
                k, a, g = self.rev[n]
                t = {"f": 0, "n": 1, "c": 2}[k]
                data += t.to_bytes(w[0], "big") if w[0] else b""
                data += a.to_bytes(w[1], "big")
                data += g.to_bytes(w[2], "big") if w[2] else b""
            d = dict(tr)
            d[b"Type"] = Name(b"XRef")
            d[b"W"] = list(w)
            d[b"Index"] = index
            raw = bytes(data)
            if compress_xref:
                d[b"Filter"] = Name(b"FlateDecode")
                raw = zlib.compress(raw)
            self.buf += ser_indirect(xref_num, 0, Stream(d, raw))
        self.buf += b"startxref\n%d\n%%%%EOF\n" % off
        self.prev = off
        self.startxrefs.append(off)
        self.rev = None
        return off

    def bytes(self):
        return bytes(self.buf)
