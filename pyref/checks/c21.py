"""C21 checker: typed IR -> expected operators vs an independent tokenisation of the emitted
bytes vs what ContentParser::parse reported."""
import glob, json, math, os, re
from multiprocessing import Pool
from .common import args
from .. import pdf, enc_tables
from ..pdf import Name, String, PdfError
from ..recpy import Recorder

NUM = r"(-?(?:inf|NaN|\d+(?:\.\d+)?(?:e-?\d+)?))"


def fz(x):
    x = float(x.replace("NaN", "nan"))
    return x if math.isfinite(x) else 0.0


def nums_in(s):
    if re.search(r"\w+: ", s):
        return [fz(m) for m in re.findall(r"\w+: " + NUM, s)]     # struct variant: skip the digits in field names
    return [fz(m) for m in re.findall(NUM, s)]


SIMPLE = {"ClosePath": b"h", "Stroke": b"S", "FillNonZero": b"f", "FillStroke": b"B", "SaveState": b"q", "RestoreState": b"Q",
          "BeginText": b"BT", "EndText": b"ET", "EndPath": b"n", "ClipNonZero": b"W", "ClipEvenOdd": b"W*"}
NUMERIC = {"MoveTo": (b"m", 2), "LineTo": (b"l", 2), "CurveTo": (b"c", 2), "Rect": (b"re", 2), "SetLineWidth": (b"w", 2), "SetMiterLimit": (b"M", 2),
           "SetFlatness": (b"i", 2), "Cm": (b"cm", 2), "SetTextPosition": (b"Td", 2), "SetWordSpacing": (b"Tw", 2), "SetCharSpacing": (b"Tc", 2),
           "SetHorizontalScaling": (b"Tz", 2), "SetLeading": (b"TL", 2), "SetTextRise": (b"Ts", 2)}
INTS = {"SetLineCap": b"J", "SetLineJoin": b"j", "SetRenderingMode": b"Tr"}
NAMED = {"SetExtGState": b"gs", "InvokeXObject": b"Do", "PaintShading": b"sh", "SetFillColorSpace": b"cs", "SetStrokeColorSpace": b"CS", "SetRenderingIntent": b"ri"}
# ContentOperation variant -> operator
PARSED = {"MoveTo": b"m", "LineTo": b"l", "CurveTo": b"c", "Rectangle": b"re", "ClosePath": b"h", "Stroke": b"S", "Fill": b"f", "FillStroke": b"B",
          "SaveGraphicsState": b"q", "RestoreGraphicsState": b"Q", "SetTransformMatrix": b"cm", "SetLineWidth": b"w", "SetLineCap": b"J",
          "SetLineJoin": b"j", "SetMiterLimit": b"M", "SetDashPattern": b"d", "SetFlatness": b"i", "SetGraphicsStateParams": b"gs",
          "BeginText": b"BT", "EndText": b"ET", "SetFont": b"Tf", "MoveText": b"Td", "ShowText": b"Tj", "SetWordSpacing": b"Tw",
          "SetCharSpacing": b"Tc", "SetHorizontalScaling": b"Tz", "SetLeading": b"TL", "SetTextRise": b"Ts", "SetTextRenderMode": b"Tr",
          "EndPath": b"n", "Clip": b"W", "ClipEvenOdd": b"W*", "SetNonStrokingRGB": b"rg", "SetStrokingRGB": b"RG", "SetNonStrokingGray": b"g",
          "SetStrokingGray": b"G", "SetNonStrokingCMYK": b"k", "SetStrokingCMYK": b"K"}


def expected_from_ir(ir):
    """-> list of (operator, numbers or None, extra) ; None entries = not modelled"""
    out = []
    for s in ir:
        head = re.match(r"[A-Za-z]+", s).group(0)
        if head in SIMPLE:
            out.append((SIMPLE[head], [], None, 0))
        elif head in NUMERIC:
            op, prec = NUMERIC[head]
            out.append((op, nums_in(s[len(head):]), None, prec))
        elif head in INTS:
            out.append((INTS[head], nums_in(s[len(head):]), None, 0))
        elif head in NAMED:
            m = re.search(r'\("(.*)"\)', s)
            out.append((NAMED[head], None, ("name", m.group(1) if m else None), 0))
        elif head in ("SetFillColor", "SetStrokeColor"):
            fill = head == "SetFillColor"
            kind = re.search(r"\((Rgb|Gray|Cmyk)\(", s).group(1)
            op = {"Rgb": b"rg" if fill else b"RG", "Gray": b"g" if fill else b"G", "Cmyk": b"k" if fill else b"K"}[kind]
            out.append((op, nums_in(s[s.index(kind) + len(kind):]), None, 3))
        elif head == "SetFont":
            m = re.search(r'name: "(.*)", size: ' + NUM, s)
            out.append((b"Tf", [fz(m.group(2))], ("name", m.group(1)), 6))
        elif head == "SetDashPatternRaw":
            out.append((b"d", None, None, 0))
        elif head == "ShowText":
            out.append((b"Tj", None, ("escaped", bytes(int(x) for x in re.findall(r"\d+", s))), 0))
        else:
            out.append((None, None, None, 0))
    return out


def flat_nums(args):
    out = []
    for a in args:
        if isinstance(a, list):
            out += flat_nums(a)
        elif isinstance(a, (int, float)) and not isinstance(a, bool):
            out.append(float(a))
    return out


def winansi_lossy(t):
    inv = {cp: b for b, cp in enc_tables.WIN.items()}
    out = bytearray()
    for ch in t:
        o = ord(ch)
        if o < 0x80 or 0xA0 <= o <= 0xFF:
            out.append(o)
        elif o in inv:
            out.append(inv[o])
        else:
            out.append(0x3F)
    return bytes(out)


def work(fn):
    res = []
    n = 0
    opseen = set()
    for line in open(fn):
        d = json.loads(line)
        n += 1
        content = bytes.fromhex(d["content"])
        wit = {"case": d["id"], "content_hex": d["content"][:3000], "ir": d["ir"][:40], "calls": d["calls"][:30]}
        try:
            toks = pdf.content_ops(content, strict=True)
        except PdfError as e:
            res.append(("C21|emitted_content_not_well_formed", "%s: %s" % (d["id"], e), wit))
            continue
        exp = expected_from_ir(d["ir"])
        if len(exp) != len(toks):
            res.append(("C21|operator_count_differs_from_ir", "%s: %d operators tokenised, IR has %d" % (d["id"], len(toks), len(exp)), wit))
            continue
        texts = [c for c in d["calls"] if c.get("text") is not None]
        ti = 0
        for (op, nums, extra, prec), (top, targs) in zip(exp, toks):
            opseen.add(top.decode("latin-1"))
            if op is None:
                continue
            if op != top:
                res.append(("C21|operator_differs_from_ir|%s" % op.decode(), "%s: IR says %s, stream has %s" % (d["id"], op, top), wit)); break
            if nums is not None:
                got = flat_nums(targs)
                tol = 0.5 * 10 ** (-prec) + 1e-9 if prec else 1e-9
                if len(got) != len(nums) or any(abs(a - b) > tol + abs(b) * 1e-12 for a, b in zip(got, nums)):
                    res.append(("C21|operands_differ_from_ir|%s" % op.decode(), "%s: %s operands %r, IR (after finite_or_zero and rounding) %r" % (d["id"], op.decode(), got[:6], nums[:6]), wit)); break
            if extra and extra[0] == "name":
                nm = next((a for a in targs if isinstance(a, Name)), None)
                if nm is None or nm.v != (extra[1] or "").encode():
                    res.append(("C21|name_operand_differs_from_ir|%s" % op.decode(), "%s: %r vs IR %r" % (d["id"], nm, extra[1]), wit)); break
            if extra and extra[0] == "escaped" and ti < len(texts):
                call = texts[ti]; ti += 1
                st = targs[0] if targs and isinstance(targs[0], String) else None
                if call.get("font") in ("Helvetica", "TimesBold", "Courier") and st is not None:
                    want = winansi_lossy(call["text"])
                    if st.v != want:
                        cls = "controls" if any(ord(c) < 0x20 for c in call["text"]) else ("non_latin1" if any(ord(c) > 0xFF for c in call["text"]) else "latin1")
                        res.append(("C21|show_text_bytes_differ_from_WinAnsi_of_input|%s" % cls, "%s: text %r -> %r, expected %r" % (d["id"], call["text"][:40], st.v[:40], want[:40]), wit)); break
        else:
            # library's own parser on the same bytes
            p = d["parsed"]
            if isinstance(p, dict):
                res.append(("C21|ContentParser_rejects_emitted_content", "%s: %s" % (d["id"], p["err"]), wit))
            elif len(p) != len(toks):
                res.append(("C21|ContentParser_operator_count_differs", "%s: ContentParser %d operations, independent tokeniser %d" % (d["id"], len(p), len(toks)), wit))
            else:
                for ps, (top, targs) in zip(p, toks):
                    head = re.match(r"[A-Za-z]+", ps).group(0)
                    if head in PARSED and PARSED[head] != top:
                        res.append(("C21|ContentParser_operator_differs|%s" % top.decode("latin-1"), "%s: ContentParser %s for operator %s" % (d["id"], ps[:60], top), wit)); break
                    if head in PARSED and top in (b"m", b"l", b"c", b"re", b"cm", b"w", b"M", b"i", b"Td", b"Tw", b"Tc", b"Tz", b"TL", b"Ts", b"rg", b"RG", b"g", b"G", b"k", b"K"):
                        a, b = nums_in(ps[len(head):]), flat_nums(targs)
                        if any(abs(y) > 1e37 for y in b):
                            continue            # beyond the f32 range ContentOperation stores
                        if len(a) != len(b) or any(abs(x - y) > 1e-3 + abs(y) * 1e-6 for x, y in zip(a, b)):
                            res.append(("C21|ContentParser_operands_differ|%s" % top.decode("latin-1"), "%s: ContentParser %s, stream operands %r" % (d["id"], ps[:80], b[:6]), wit)); break
    return res, n, sorted(opseen)


def main():
    out, seed, tier, kv = args()
    rec = Recorder("py")
    files = sorted(glob.glob(os.path.join(out, "c21-*.jsonl")))
    with Pool(min(16, max(1, len(files)))) as pool:
        for res, n, ops in pool.imap(work, files):
            rec.count("sequences_checked", n)
            for o in ops:
                rec.set_add("operators_in_emitted_content", o)
            for sig, detail, wit in res:
                rec.violation(sig, detail, wit)
                if len(rec.samples) < 1:
                    pass
    rec.sample({"note": "each sequence = 1-25 GraphicsContext/TextContext calls with arguments from {random, 0, -0, tiny, 1e15, 1e300, NaN, inf}; see counters and sets"})
    rec.write(out)


if __name__ == "__main__":
    main()
