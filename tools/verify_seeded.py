#!/usr/bin/env python3
"""Confirm a seeded change in a scratch worktree: applies to /repo HEAD, compiles, the existing
suite (BASELINE stable_pass) still passes, the demonstration fails with it and passes without.
usage: verify_seeded.py <dir with patch.diff demo.rs notes.json> ...   -> writes <dir>/verify.json"""
import json, os, re, subprocess, sys, shutil, time
WT = "/tmp/wt/verify"
TGT = "/tmp/wt/verify-target"
ENV = dict(os.environ, CARGO_NET_OFFLINE="true", CARGO_TARGET_DIR=TGT, CARGO_BUILD_JOBS="8")
BASE = json.load(open("/root/.vp/BASELINE.json"))
STABLE = set(BASE["stable_pass"])

def sh(cmd, cwd=WT, timeout=3600):
    p = subprocess.run(cmd, shell=True, cwd=cwd, env=ENV, stdout=subprocess.PIPE, stderr=subprocess.STDOUT, text=True, timeout=timeout)
    return p.returncode, p.stdout

def reset():
    head = subprocess.check_output("git -C /repo rev-parse HEAD", shell=True, text=True).strip()
    if not os.path.isdir(WT):
        os.makedirs("/tmp/wt", exist_ok=True)
        subprocess.check_call(f"git -C /repo worktree add --detach {WT} {head}", shell=True)
    sh("git reset -q --hard && git clean -q -fd && git checkout -q --detach " + head)
    return head

LIGHT = os.environ.get("VERIFY_LIGHT") == "1"


def suite():
    if LIGHT:
        # the library's own unit tests (about 6700) instead of the whole workspace suite; the authoring
        # agent's full-suite result is kept in notes.json
        rc, out = sh("cargo test --offline -p oxidize-pdf --lib 2>&1 | tail -40", timeout=3600)
        m = re.findall(r"test result: (\w+)\. (\d+) passed; (\d+) failed", out)
        failed = set(re.findall(r"^test (\S+) \.\.\. FAILED", out, re.M))
        built = "could not compile" not in out and bool(m)
        return built, set("oxidize-pdf::" + f for f in failed), ("lib tests: " + (" ".join(m[-1]) if m else out[-300:]))
    rc, out = sh("cargo nextest run --workspace --no-fail-fast --tool-config-file pb:/w/lib/nextest.toml --profile pb --test-threads 8 --offline 2>&1", timeout=5400)
    failed = set()
    for m in re.finditer(r"^\s+(?:FAIL|SIGABRT|SIGSEGV|TIMEOUT|LEAK-FAIL)\s+\[[^\]]*\]\s+(\S+)\s+(\S+)", out, re.M):
        failed.add(f"{m.group(1)}::{m.group(2)}")
    summ = re.findall(r"Summary.*", out)
    built = "error: could not compile" not in out and "error[E" not in out
    return built, failed, (summ[-1] if summ else out[-400:])

def main():
    for d in sys.argv[1:]:
        d = d.rstrip("/")
        res = {"dir": d, "at": time.strftime("%FT%TZ", time.gmtime())}
        try:
            notes = json.load(open(d + "/notes.json"))
            head = reset()
            res["repo_head"] = head
            patch = d + "/patch.ported.diff" if os.path.exists(d + "/patch.ported.diff") else d + "/patch.diff"
            res["patch"] = os.path.basename(patch)
            rc, out = sh(f"git apply {patch}")
            if rc != 0:
                rc, out = sh(f"git apply --3way {patch}")
                res["applied"] = "3way" if rc == 0 else False
            else:
                res["applied"] = True
            if rc != 0:
                res["verdict"] = "does_not_apply"; res["log"] = out[-600:]
                json.dump(res, open(d + "/verify.json", "w"), indent=1); print(d, res["verdict"], flush=True); continue
            sh("git diff HEAD > /tmp/wt/verify-applied.diff")
            built, failed, summ = suite()
            res["suite_summary"] = summ
            regress = sorted(f for f in failed if f.replace("oxidize-pdf::", "oxidize-pdf::", 1) in STABLE)
            still = []
            for t in regress:  # timing-sensitive tests: re-run alone
                binid, name = t.rsplit("::", 1)[0], t.split("::", 1)[1]
                tname = t.split("::")[-1]
                ok = False
                for _ in range(2):
                    rc, out = sh(f"cargo nextest run --workspace --offline -E 'test(/{re.escape(tname)}$/)' 2>&1", timeout=1800)
                    if rc == 0:
                        ok = True; break
                if not ok:
                    still.append(t)
            res["suite_built"] = built
            res["suite_failed_n"] = len(failed)
            res["suite_failed_in_stable_first_pass"] = regress
            res["suite_failed_in_stable_after_rerun_alone"] = still
            demo_path = notes["demo_path"].split(" ")[0]
            name = os.path.basename(demo_path)[:-3]
            shutil.copy(d + "/demo.rs", os.path.join(WT, demo_path))
            rc1, out1 = sh(f"cargo test --offline -p oxidize-pdf --test {name} 2>&1", timeout=3600)
            res["demo_with_change_rc"] = rc1
            res["demo_with_change_tail"] = "\n".join([l for l in out1.splitlines() if re.search(r"test result|panicked|FAILED|error", l)][-6:])
            sh(f"git apply -R /tmp/wt/verify-applied.diff")
            rc2, out2 = sh(f"cargo test --offline -p oxidize-pdf --test {name} 2>&1", timeout=3600)
            res["demo_without_change_rc"] = rc2
            res["demo_without_change_tail"] = "\n".join([l for l in out2.splitlines() if re.search(r"test result|panicked|FAILED|error", l)][-4:])
            ok = built and not still and rc1 != 0 and "test result: FAILED" in out1 and rc2 == 0
            res["verdict"] = "confirmed" if ok else "not_confirmed"
        except Exception as e:
            res["verdict"] = "verify_error"; res["error"] = repr(e)
        json.dump(res, open(d + "/verify.json", "w"), indent=1)
        print(d, res["verdict"], flush=True)
    reset()

main()
