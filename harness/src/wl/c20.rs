//! C20 — writing the same document twice gives identical bytes: same Document twice,
//! fresh Document built again from the same program, and (through the hash files the
//! Python stage compares) two different processes.
use crate::gen::docgen;
use crate::{Ctx, Recorder, Rng};
use serde_json::json;
use std::io::Write;

fn first_diff(a: &[u8], b: &[u8]) -> usize {
    a.iter().zip(b.iter()).position(|(x, y)| x != y).unwrap_or(a.len().min(b.len()))
}

fn context(a: &[u8], at: usize) -> String {
    let s = at.saturating_sub(60);
    String::from_utf8_lossy(&a[s..(at + 40).min(a.len())]).replace('\n', "\\n")
}

pub fn run(ctx: &Ctx, rec: &mut Recorder) -> Result<(), String> {
    let path = ctx.out.join(format!("c20-{}.jsonl", ctx.shard));
    std::fs::create_dir_all(&ctx.out).ok();
    let mut f = std::io::BufWriter::new(std::fs::File::create(&path).map_err(|e| e.to_string())?);
    let nprog = ctx.qt(48u64, 300u64);
    let cfgs = docgen::configs();
    for pno in 0..nprog {
        // every program is handled by two different shards (= two processes with
        // different HashMap seeds); the Python stage compares their hashes
        let mine = ctx.mine(pno) || ctx.mine(pno + 1);
        if !mine {
            continue;
        }
        let mut r = Rng::derive(ctx.seed, 0xC20, pno);
        let prog = docgen::gen_program(&mut r, true, &["ascii", "delims", "latin1"]);
        // quick: all configurations without object streams + 2 with (slow to serialise: 1M-entry xref)
        let mut pick: Vec<usize> = (0..cfgs.len()).collect();
        if ctx.quick() {
            let mut with_os: Vec<usize> = pick.iter().copied().filter(|i| cfgs[*i].1.use_object_streams).collect();
            r.shuffle(&mut with_os);
            with_os.truncate(2);
            pick.retain(|i| !cfgs[*i].1.use_object_streams || with_os.contains(i));
        }
        for ci in pick {
            let (cname, cfg) = cfgs[ci].clone();
            rec.case(format!("{pno}|{cname}").as_bytes(), true);
            let w = json!({"program": prog, "config": cname});
            let res = crate::mon::guarded(|| -> Result<(Vec<u8>, Vec<u8>, Vec<u8>), String> {
                let mut b1 = docgen::build(&prog);
                let x1 = docgen::write(&mut b1.doc, cfg.clone())?;
                let x2 = docgen::write(&mut b1.doc, cfg.clone())?;
                let mut b2 = docgen::build(&prog);
                let x3 = docgen::write(&mut b2.doc, cfg.clone())?;
                Ok((x1, x2, x3))
            });
            let cc = cname.rsplit_once('|').map(|x| x.0).unwrap_or(&cname).to_string();
            match res {
                Err(p) => rec.violation(format!("C20|panic|{}", p.site()), p.message.clone(), w),
                Ok(Err(e)) => rec.violation(format!("C20|writer_error|{cc}"), e, w),
                Ok(Ok((x1, x2, x3))) => {
                    if x1 != x2 {
                        let at = first_diff(&x1, &x2);
                        rec.violation(format!("C20|same_document_written_twice_differs|{cc}"), format!("first difference at byte {at} of {}: …{}…", x1.len(), context(&x1, at)), w.clone());
                    }
                    if x1 != x3 {
                        let at = first_diff(&x1, &x3);
                        rec.violation(format!("C20|two_documents_from_same_program_differ|{cc}"), format!("first difference at byte {at} of {}: …{}…", x1.len(), context(&x1, at)), w.clone());
                    }
                    writeln!(f, "{}", json!({"id": format!("{pno}|{cname}"), "sha": crate::dump::sha1_hex(&x1), "len": x1.len(), "shard": ctx.shard, "config": cname, "prog": pno})).ok();
                    if pno < 2 && ci == 0 {
                        rec.sample(json!({"program_pages": prog["pages"].as_array().map(|p| p.len()), "config": cname, "bytes": x1.len(), "sha1": crate::dump::sha1_hex(&x1)}));
                    }
                }
            }
        }
        // second clause: through to_bytes() at different instants only date fields may differ
        if pno < 3 && ctx.mine(pno) {
            let mut b = docgen::build(&prog);
            if let (Ok(y1), _, Ok(y2)) = (b.doc.to_bytes(), std::thread::sleep(std::time::Duration::from_millis(1100)), b.doc.to_bytes()) {
                rec.count("to_bytes_pairs_one_second_apart");
                if y1.len() != y2.len() {
                    rec.violation("C20|to_bytes|length_changes_with_the_clock", format!("{} vs {} bytes", y1.len(), y2.len()), json!({"program": prog}));
                } else {
                    for (i, (a, b2)) in y1.iter().zip(y2.iter()).enumerate() {
                        if a != b2 {
                            let lo = i.saturating_sub(120);
                            let before = String::from_utf8_lossy(&y1[lo..i]).to_string();
                            let ok = ["ModDate", "CreationDate", "ModifyDate", "CreateDate", "MetadataDate"].iter().any(|k| before.contains(k));
                            if !ok {
                                rec.violation("C20|to_bytes|byte_outside_date_fields_differs", format!("byte {i}: …{}…", context(&y1, i)), json!({"program": prog}));
                                break;
                            }
                        }
                    }
                }
            }
        }
    }
    Ok(())
}
