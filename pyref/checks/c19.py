"""C19 — damaged cross-reference data is reconstructed faithfully (fault enumeration)."""
import json, os, re
from .common import args, rng, load_obs, load_cases
from .. import pdf, pdfgen
from ..pdf import Name, String, Ref, Stream
from ..recpy import Recorder

PRESETS = ["default", "tolerant", "skip_errors"]


def gen_base(seed, cno, tier):
    r = rng(seed, "c19", cno)
    w = pdfgen.Writer(version=r.choice([b"1.4", b"1.7"]), binary_comment=r.random() < 0.8)
    w.begin()
    npages = r.randint(1, 3)
    objs = {}
    nxt = 3
    page_nums = []
    decoy = (cno % 4 == 3)
    font = nxt; nxt += 1
    objs[font] = {b"Type": Name(b"Font"), b"Subtype": Name(b"Type1"), b"BaseFont": Name(b"Helvetica")}
    for p in range(npages):
        pn, cn = nxt, nxt + 1
        nxt += 2
        body = b"BT /F1 12 Tf 72 %d Td (page %d marker c19-%d-%d) Tj ET\n" % (700 - p, p, cno, r.randrange(10 ** 6))
        if decoy:
            body += b"%% decoy: 99 0 obj << /Type /Catalog >> endobj\n(1 0 obj) Tj\n"
        objs[cn] = Stream({}, body)
        objs[pn] = {b"Type": Name(b"Page"), b"Parent": Ref(2, 0), b"MediaBox": [0, 0, 300 + p, 400], b"Contents": Ref(cn, 0),
                    b"Resources": {b"Font": {b"F1": Ref(font, 0)}}}
        page_nums.append(pn)
    for k in range(r.randint(1, 6)):
        n = nxt; nxt += 1
        m = String(("extra-%d-%d" % (n, r.randrange(10 ** 6))).encode())
        objs[n] = r.choice([{b"Marker": m, b"Nested": {b"A": [1, 2.5, Name(b"X")], b"B": None}}, [m, n, True], m,
                            Stream({b"Marker": m}, bytes(r.randrange(256) for _ in range(r.randint(0, 80))))])
    info = nxt; nxt += 1
    objs[info] = {b"Title": String(("c19 base %d" % cno).encode()), b"Producer": String(b"pyref.pdfgen")}
    objs[1] = {b"Type": Name(b"Catalog"), b"Pages": Ref(2, 0)}
    objs[2] = {b"Type": Name(b"Pages"), b"Kids": [Ref(p, 0) for p in page_nums], b"Count": npages}
    order = sorted(objs)
    if r.random() < 0.6:
        r.shuffle(order)
    for n in order:
        w.put(n, 0, objs[n])
    w.end("table", Ref(1, 0), info=Ref(info, 0), first=True)
    return w.bytes(), nxt - 1, decoy


def damages(data, r, pairs=False):
    """yield (name, bytes) for every single damage of the catalogue"""
    xs = data.rfind(b"\nxref\n") + 1
    tr = data.find(b"trailer", xs)
    sx = data.rfind(b"startxref")
    head, table, trailer, tail = data[:xs], data[xs:tr], data[tr:sx], data[sx:]
    lines = table.split(b"\n")  # ['xref', '0 N', entries..., '']
    ents = [i for i, l in enumerate(lines) if re.match(rb"\d{10} \d{5} [nf] $", l)]
    inuse = [i for i in ents if lines[i].endswith(b"n ")]

    def rebuild(ls):
        return head + b"\n".join(ls) + trailer + tail

    out = []
    for delta in (1, -1, 7, -7, 1000):
        ls = list(lines)
        for i in inuse:
            off = int(ls[i][:10]) + delta
            ls[i] = b"%010d" % max(0, off) + ls[i][10:]
        out.append(("shift_all_offsets_%+d" % delta, rebuild(ls)))
    ls = list(lines)
    for i in inuse:
        ls[i] = b"0000000000" + ls[i][10:]
    out.append(("zero_all_offsets", rebuild(ls)))
    i = r.choice(inuse)
    ls = list(lines); ls[i] = b"0000000000" + ls[i][10:]
    out.append(("zero_one_offset", rebuild(ls)))
    if len(inuse) >= 2:
        a, b = r.sample(inuse, 2)
        ls = list(lines); ls[a], ls[b] = ls[b], ls[a]
        out.append(("swap_two_entries", rebuild(ls)))
    i = r.choice(inuse)
    ls = list(lines); ls[i] = ls[i][:17] + b"f "
    out.append(("flip_n_to_f", rebuild(ls)))
    i = r.choice(inuse)
    ls = list(lines); ls[i] = ls[i][:11] + b"00007" + ls[i][16:]
    out.append(("corrupt_generation", rebuild(ls)))
    ls = list(lines); st, cnt = ls[1].split()
    ls[1] = b"1 " + cnt
    out.append(("wrong_subsection_start", rebuild(ls)))
    ls = list(lines); ls[1] = st + b" %d" % (int(cnt) + 3)
    out.append(("wrong_subsection_count_plus", rebuild(ls)))
    ls = list(lines); ls[1] = st + b" %d" % max(1, int(cnt) - 2)
    out.append(("wrong_subsection_count_minus", rebuild(ls)))
    out.append(("delete_table", head + trailer + tail))
    out.append(("delete_trailer_keyword", head + table + trailer.replace(b"trailer", b"", 1) + tail))
    out.append(("delete_trailer_dict", head + table + b"trailer\n" + tail))
    out.append(("delete_startxref", head + table + trailer + b"%%EOF\n"))
    out.append(("startxref_zero", head + table + trailer + b"startxref\n0\n%%EOF\n"))
    out.append(("startxref_mid_object", head + table + trailer + b"startxref\n%d\n%%%%EOF\n" % (len(head) // 2)))
    out.append(("startxref_past_eof", head + table + trailer + b"startxref\n%d\n%%%%EOF\n" % (len(data) + 5000)))
    out.append(("startxref_non_numeric", head + table + trailer + b"startxref\nabc\n%%EOF\n"))
    out.append(("strip_eof_marker", data.replace(b"%%EOF\n", b"")))
    out.append(("garbage_after_eof", data + bytes(r.randrange(256) for _ in range(200))))
    out.append(("cr_only_line_ends_in_table", head + table.replace(b"\n", b"\r") + trailer + tail))
    return out


def phase_gen(out, seed, tier, kv):
    d = os.path.join(out, "cases")
    os.makedirs(d, exist_ok=True)
    nfiles = 150 if tier == "quick" else 1500
    with open(os.path.join(d, "cases.jsonl"), "w") as f:
        for c in range(nfiles):
            data, maxobj, decoy = gen_base(seed, c, tier)
            r = rng(seed, "c19dmg", c)
            base = "b%05d" % c
            open(os.path.join(d, base + ".pdf"), "wb").write(data)
            f.write(json.dumps({"id": base, "file": base + ".pdf", "presets": PRESETS, "objects": "all", "max_obj": maxobj, "pages": True,
                                "role": "intact", "decoy": decoy}) + "\n")
            singles = damages(data, r)
            todo = list(singles)
            if tier != "quick":
                # pairs: compose two damages where both apply independently (second applied to the first's output)
                for _ in range(12):
                    a, b = r.sample(range(len(singles)), 2)
                    try:
                        d2 = dict(damages(singles[a][1], r))
                        nm = singles[b][0]
                        if nm in d2:
                            todo.append((singles[a][0] + "&&" + nm, d2[nm]))
                    except Exception:
                        pass
            for name, dd in todo:
                fn = "%s-%s.pdf" % (base, name.replace("&&", "_and_"))
                open(os.path.join(d, fn), "wb").write(dd)
                f.write(json.dumps({"id": "%s|%s" % (base, name), "file": fn, "presets": PRESETS, "objects": "all", "max_obj": maxobj, "pages": True,
                                    "role": "damaged", "base": base, "damage": name, "decoy": decoy}) + "\n")


def phase_check(out, seed, tier, kv):
    rec = Recorder("py")
    d = os.path.join(out, "cases")
    cases = load_cases(d)
    obs = load_obs(out)
    failing_single = set()   # (base, preset, damage)
    ordered = sorted(cases.items(), key=lambda kv: ("&&" in (kv[1].get("damage") or ""), kv[0]))
    for cid, c in ordered:
        if c["role"] != "damaged":
            continue
        base = obs.get(c["base"], {})
        dmg = c["damage"]
        fam = "decoy_in_stream" if c["decoy"] else "plain"
        rec.case(cid, nontrivial=True)
        rec.set_add("damage_ops", dmg)
        for preset, o in obs.get(cid, {}).items():
            b = base.get(preset)
            if b is None or b.get("open_err") or "panic" in b:
                rec.inconc("intact file %s does not open under %s: %s" % (c["base"], preset, b and (b.get("open_err") or b.get("panic"))))
                continue
            rec.count("observations")
            wit = {"case": cid, "seed": seed, "preset": preset, "damage": dmg, "file": c["file"]}
            try:
                wit["file_hex"] = open(os.path.join(d, c["file"]), "rb").read().hex()
            except Exception:
                pass
            if "panic" in o:
                rec.violation("C19|panic|%s" % o["panic"], "%s: %s" % (cid, o.get("panic_msg")), wit)
                continue
            took_recovery = bool(o.get("events", {}).get("xref.recovery") or o.get("events", {}).get("reader.manual_reconstruction")
                                 or o.get("events", {}).get("reader.find_catalog_by_scan") or o.get("events", {}).get("xref.hybrid_fill"))
            rec.count("recovery_path_taken" if took_recovery else "primary_parser_shrugged_it_off")
            sig_dmg = dmg
            if "&&" in dmg:
                # a pair is attributed to a component that already fails alone on this file
                for part in dmg.split("&&"):
                    if (c["base"], preset, part) in failing_single or (None, preset, part) in failing_single:
                        sig_dmg = part
                        break
                else:
                    sig_dmg = "pair:" + dmg
            if o.get("open_err"):
                failing_single.add((c["base"], preset, dmg))
                failing_single.add((None, preset, dmg))
                rec.violation("C19|%s|%s|intact_view_not_reproduced" % (sig_dmg, preset), "%s preset %s: open fails: %s" % (cid, preset, o["open_err"]), wit)
                continue
            first = None
            if o.get("page_count") != b.get("page_count"):
                first = "page_count %r vs intact %r" % (o.get("page_count"), b.get("page_count"))
            elif o.get("catalog") != b.get("catalog"):
                first = "catalog differs"
            else:
                for k, v in b.get("objects", {}).items():
                    if o.get("objects", {}).get(k) != v:
                        kind = "object_unreadable" if isinstance(o["objects"].get(k), dict) and "err" in o["objects"].get(k) else "object_value_differs"
                        first = "%s: object %s -> %s, intact %s" % (kind, k, json.dumps(o["objects"].get(k))[:120], json.dumps(v)[:120])
                        break
            if first:
                failing_single.add((c["base"], preset, dmg))
                failing_single.add((None, preset, dmg))
                rec.violation("C19|%s|%s|intact_view_not_reproduced" % (sig_dmg, preset), "%s preset %s (%s): %s" % (cid, preset, fam, first), wit)
        if len(rec.samples) < 4:
            rec.sample({"case": cid, "damage": dmg, "presets": list(obs.get(cid, {}).keys())})
    rec.extra["exhaustive"] = True
    rec.write(out)


if __name__ == "__main__":
    out, seed, tier, kv = args()
    (phase_gen if kv.get("phase") == "gen" else phase_check)(out, seed, tier, kv)
