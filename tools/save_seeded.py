#!/usr/bin/env python3
"""Collect the seeded changes that were confirmed (tools/verify_seeded.py) and tried against the checks
(tools/trial.sh logs) into /verif/seeded/<ID>-<a|b>/: patch.diff, demo.rs, agent_notes.json, meta.json.
usage: save_seeded.py <trial log> [<trial log> ...]"""
import json, os, re, shutil, sys, glob

SRC = "/tmp/seeded"
DST = "/verif/seeded"
EXTRA = json.load(open("/verif/seeded/extra_notes.json")) if os.path.exists("/verif/seeded/extra_notes.json") else {}


def parse_logs(paths):
    res = {}
    for p in paths:
        cur = None
        for line in open(p, errors="replace"):
            m = re.match(r"=== (C\d\d)/([a-d]) -> check (C\d\d) \((\d\d:\d\d)\)", line)
            if m:
                cur = "%s-%s" % (m.group(1), m.group(2))
                res.setdefault(cur, []).append({"check": m.group(3), "log": os.path.basename(p), "lines": []})
                continue
            if cur and line.strip() and not line.startswith("ALL-DONE"):
                res[cur][-1]["lines"].append(line.strip()[:300])
    return res


def main():
    trials = parse_logs(sys.argv[1:])
    for d in sorted(glob.glob(SRC + "/C??/[a-d]")):
        pid, v = d.split("/")[-2], d.split("/")[-1]
        key = "%s-%s" % (pid, v)
        vf = os.path.join(d, "verify.json")
        if not os.path.exists(vf) or not os.path.exists(os.path.join(d, "notes.json")):
            continue
        ver = json.load(open(vf))
        notes = json.load(open(os.path.join(d, "notes.json")))
        out = os.path.join(DST, key)
        os.makedirs(out, exist_ok=True)
        ported = os.path.exists(os.path.join(d, "patch.ported.diff"))
        shutil.copy(os.path.join(d, "patch.ported.diff" if ported else "patch.diff"), os.path.join(out, "patch.diff"))
        if ported:
            shutil.copy(os.path.join(d, "patch.diff"), os.path.join(out, "patch.as_written_by_agent.diff"))
        shutil.copy(os.path.join(d, "demo.rs"), os.path.join(out, "demo.rs"))
        json.dump(notes, open(os.path.join(out, "agent_notes.json"), "w"), indent=1)
        runs = []
        for t in trials.get(key, []):
            sigs = [re.sub(r" :: .*", "", l.split("signature=", 1)[1]) for l in t["lines"] if "signature=" in l]
            summ = [l for l in t["lines"] if l.startswith("SUMMARY")]
            incon = [l for l in t["lines"] if l.startswith("INCONCL") or "DOES NOT APPLY" in l]
            runs.append({"check": t["check"], "violation_signatures": sigs, "summary": summ[-1] if summ else None, "problems": incon,
                         "caught": bool(sigs) and not incon})
        meta = {
            "property": pid,
            "breaks": notes.get("summary"),
            "needs_to_manifest": notes.get("needs_to_manifest"),
            "source": "independent sub-agent that saw only the property text and its own scratch worktree",
            "patch": "patch.diff applies to /repo at %s%s" % (ver.get("repo_head", "?")[:8], " (ported by hand from the agent's patch, which was written against an older HEAD: patch.as_written_by_agent.diff)" if ported else ""),
            "confirmed_by_me": {"verdict": ver.get("verdict"), "suite": ver.get("suite_summary"), "suite_failed_in_baseline_stable_set": ver.get("suite_failed_in_stable_after_rerun_alone"),
                                "demo_with_change": ver.get("demo_with_change_tail"), "demo_without_change": ver.get("demo_without_change_tail")},
            "agent_reported_full_suite": notes.get("suite_result"),
            "ran": "tools/trial.sh seeded/%s/patch.diff %s   (= git -C /repo apply <patch>; ./check %s; git -C /repo checkout -- . , in a scratch worktree)" % (key, pid, pid),
            "trial_runs_in_order": runs,
            "caught_by_final_checks": runs[-1]["caught"] if runs else None,
        }
        if key in EXTRA:
            meta["note"] = EXTRA[key]
        # the check was extended after reading the agent's report and before the first trial: the check as it
        # stood would (probably) have missed the change
        meta["strengthened_before_first_trial"] = key in ("C11-a", "C11-b", "C15-a", "C15-b", "C16-b", "C26-b", "C20-b", "C09-a", "C13-a", "C17-a", "C19-a", "C03-a")
        json.dump(meta, open(os.path.join(out, "meta.json"), "w"), indent=1)
        print(key, ver.get("verdict"), [(r["check"], r["caught"]) for r in runs])


main()
