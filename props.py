"""Per-property check definitions used by ./check and tools/gen_manifest.py."""

def rust(**kw):
    return ("rust", kw)

def py(module, **kw):
    return ("py", module, kw)

PROPS = {}

PROPS["C25"] = dict(
    title="Single-byte text encodings match the normative tables",
    level="exploration",
    exhaustive=True,
    technique="runtime dump of the complete encode/decode behaviour (256 bytes x 4 encodings, all 1 112 064 scalar values x 2 encode paths x 4 encodings) judged offline against transcribed Annex D tables",
    stages=[rust(shards=1), py("pyref.checks.c25")],
    rule="exhaustive: every byte 0..255 through decode() and PdfString::to_text, every Unicode scalar value through encode_strict() and encode(), for WinAnsi/MacRoman/Standard/PDFDoc; a case is non-trivial (and counted once) when Annex D assigns that byte / character in that encoding",
    assumptions=["Annex D tables transcribed by hand in pyref/enc_tables.py (cross-checked against Python's cp1252/mac_roman/latin-1 codecs where they agree, bijectivity, entry counts 149 Standard / 232 PDFDoc)",
                 "codes on which Annex D is silent or ambiguous (controls <0x20, unassigned codes, duplicate space/hyphen codes, MacRoman 0xDB and the Mac OS symbol codes outside the PDF Latin set) are not judged"],
    floors={"quick": {"evaluations": 4_000_000, "distinct": 1500}, "thorough": {"evaluations": 4_000_000, "distinct": 1500}},
    level_text="Exhaustive enumeration of the finite input space at run time: nothing is sampled, so any single wrong table entry is observed.",
    level_note="Trusted base: the hand-transcribed Annex D tables. Divergences of the pinned tree are listed individually in known_findings.jsonl; any other divergence is a violation.",
    design_ref="§5 C25",
)

# Properties deliberately not claimed (reason shown in MANIFEST.not_applicable).
NOT_APPLICABLE = {}

PROPS["C29"] = dict(
    title="The object cache behaves as a bounded least-recently-used map",
    level="exploration",
    technique="differential monitor against a 15-line reference LRU: exhaustive enumeration of all short operation sequences (both cache types, capacities 0-4), plus client-boundary histories of real concurrent threads checked for linearizability (Wing-Gong search); Miri seeds in the thorough tier",
    stages=[rust(), py("pyref.stages.miri", args={"bin": "c29", "prop": "C29", "seeds": 192, "args": "3"}, tiers=["thorough"])],
    rule="sequential part: every sequence over {get(k),put(k,fresh),clear,len} (a) with 5 keys up to length 6 (quick) / 7 (thorough) x capacities 0..4 x {LruCache, ObjectCache}, plus one more length for capacities 3,4 on LruCache, (b) with 3 keys up to length 7 / 9, compared step by step with the reference and probed for membership of every key at the end; (c) random long sequences (8-57 ops, 2-8 keys, capacity 0-6); concurrent part: random plans of 2-3 threads x 3-5 ops on ObjectCache (capacity 1-3) with seeded spins, history stamped at the client boundary from one atomic clock, followed by a quiescent epilogue (len, get of every key, len), searched for a linearization. distinct_nontrivial counts sequences that force an eviction plus distinct concurrent histories in which operations of different threads really overlapped",
    assumptions=["reference LRU model in harness/src/wl/c29_core.rs", "interleavings are whatever the OS scheduler and seeded spins produced (and Miri's seeded scheduler in the thorough tier); they are counted, not enumerated"],
    floors={"quick": {"evaluations": 50_000_000, "distinct": 1_000_000, "counters": {"concurrent_histories_with_real_overlap": 3000}},
            "thorough": {"evaluations": 150_000_000, "distinct": 3_000_000, "counters": {"concurrent_histories_with_real_overlap": 30000}}},
    level_text="Sequential behaviour is enumerated completely up to the stated length (exhaustive for that bound); concurrent behaviour is sampled: each recorded history is decided exactly by the linearizability search, but only the interleavings that occurred are covered.",
    level_note="Trusted base: the reference LRU and the linearizability search in the harness. No claim about interleavings that did not occur.",
)

PROPS["C27"] = dict(
    title="Page labels follow the numbering styles of the specification",
    level="exploration",
    technique="differential monitor: labels computed by the library for enumerated numbers (every style, 1..N) and for generated range sets x boundary indices, judged offline against an independent formatter written from ISO 32000-1 §12.4.2; the tree as written (PageLabelTree::to_dict, the /Nums entries that go into the document) is read by the same independent labeller and must give the same labels at the probed indices; panic monitor",
    stages=[rust(), py("pyref.checks.c27")],
    rule="(a) every style x every number 1..N (3000 quick / 20000 thorough) through a one-range tree; (b) random trees of 1-6 ranges (styles, prefixes, start values incl. 26/27/52/53/702/703/2^31/u32::MAX) probed at indices around every range boundary. A case is non-trivial when the governing number exceeds 26 (multi-letter / multi-symbol territory) and is counted once per (case, index)",
    assumptions=["reference formatter pyref/labels.py; Roman numerals above 3999 follow the repeated-M convention"],
    floors={"quick": {"evaluations": 100_000, "distinct": 20_000, "counters": {"written_trees_read_back": 10000}}, "thorough": {"evaluations": 1_000_000, "distinct": 200_000}},
    level_text="Enumerated for single ranges up to N, sampled for range sets; each label is compared with an independent formatter.",
    level_note="Trusted base: pyref/labels.py (hand vectors). The written /PageLabels number tree is covered with the document checks (C02/C03) once an independent reader parses it.",
)

PROPS["C22"] = dict(
    title="Batch processing reports every job exactly once under any schedule",
    level="exploration",
    technique="offline checker over a totally ordered event log recorded at hook sites in the worker pool (exactly-once, order, conservation of counts, 'no operation starts after the first recorded failure'), with the hook sites doubling as seeded failpoints (yield/spin/sleep) and mid-run cancellation injected at the k-th event; logical-step hang monitor for the progress thread",
    stages=[rust()],
    rule="each run = (N<=12 jobs, parallelism 1-4, stop_on_error, outcome vector over Ok/Err/Panic, custom and built-in Rotate jobs, progress callback on/off, BatchProcessor::execute or WorkerPool::process_jobs with cancellation at a random event, seeded failpoint plan with two 'hot' sites). Non-trivial: N>=2 and parallelism>=2; distinct = distinct interleaving signature (hash of the order of (site, job) events)",
    assumptions=["the event log is totally ordered by its own mutex; R5 is judged only from job_start / recorded_fail / op_call order (sound because correct code stores the cancel flag before recorded_fail is logged and loads it after job_start is logged)",
                 "wall-clock watchdog expiry alone is inconclusive; a hang verdict needs >=200 progress-loop iterations after process_jobs returned"],
    floors={"quick": {"evaluations": 12_000, "distinct": 3_000, "counters": {"runs_with_recorded_fail_under_stop_on_error": 1000, "runs_with_panicking_job": 150, "runs_with_mid_run_cancellation": 500}},
            "thorough": {"evaluations": 120_000, "distinct": 30_000, "counters": {"runs_with_recorded_fail_under_stop_on_error": 10000}}},
    level_text="Sampled schedules: every run's log is decided exactly by the offline checker, but only interleavings that the OS scheduler plus seeded delays produced are covered; their number is reported as distinct interleaving signatures.",
    level_note="Trusted base: hook placement (H2) and the checker in harness/src/wl/c22.rs. Interleavings inside std's channel/mutex are not controlled.",
)

PROPS["C07"] = dict(
    title="Every supported stream filter decodes exactly what a reference encoder encoded",
    level="exploration",
    technique="round-trip oracle at the PdfStream::decode boundary: data encoded by independent encoders (zlib via flate2's encoder, weezl and an own LZW encoder for both EarlyChange settings, own ASCII85/ASCIIHex/RunLength encoders with legal white space and end markers, fax crate for CCITT G4, own PNG/TIFF predictor encoders) must decode to the original bytes; panic monitor",
    stages=[rust()],
    rule="random data textures (0..12k bytes quick / 40k thorough, incl. inputs that cross every LZW code-width boundary and force table resets) x chains of 1-3 filters x predictor {none,2,10..15} x colours 1-4 x bpc {1,2,4,8,16} x columns 1-64, plus CCITT G4 bitmaps (widths 1-200). Non-trivial: >=2 filters, or a predictor, or LZW input > 400 bytes, or CCITT; distinct by (chain, parameters, data hash)",
    assumptions=["own encoders are validated on every run against weezl (LZW, identical output below the table-full boundary) and, for CCITT, against the fax crate's own decoder; a case the reference side cannot round-trip is inconclusive, never a violation",
                 "only the last filter of a chain carries a predictor (its input must be whole rows)"],
    floors={"quick": {"evaluations": 40_000, "distinct": 20_000}, "thorough": {"evaluations": 800_000, "distinct": 400_000}},
    level_text="Sampled inputs over the whole stated parameter space with an exact oracle (byte equality); the evidence lists the (filter x predictor x bpc x colours) cells and chains actually exercised.",
    level_note="Trusted base: flate2's encoder (zlib), weezl, fax, and the small own encoders in harness/src/gen/enc.rs. CCITT Group 3 is not generated (no independent G3 encoder available).",
)

PROPS["C08"] = dict(
    title="Bounded decoding respects its limit and agrees with full decoding",
    level="exploration",
    technique="differential monitor between decode_with_limit(L) and decode() with L placed at, just below and just above every intermediate buffer size known from the reference encoding; length and panic monitors on garbage inputs with boundary-integer DecodeParms; decompression bombs around the 256 MiB ceiling (thorough)",
    stages=[rust()],
    rule="C07's reference-encoded cases x limits {0,1,each stage size-1/+0/+1,2x,usize::MAX,random}; verdicts: Ok(v) => len(v)<=L; L>=final size and Ok => equals decode(); L>=every stage size => must be Ok. Plus random/garbled data under random filter arrays and DecodeParms (panic and length only). Non-trivial: limit within [final-1, max stage+1]; distinct by (case, limit)",
    assumptions=["if the final size fits but an intermediate buffer does not, both Ok(equal) and Err are accepted (the documentation applies the bound to every produced buffer)"],
    floors={"quick": {"evaluations": 100_000, "distinct": 30_000}, "thorough": {"evaluations": 500_000, "distinct": 200_000}},
    level_text="Sampled inputs; the oracle is exact for each (case, limit) pair because the stage sizes are known from the encoding side.",
    level_note="Trusted base: the C07 encoders (stage sizes) and decode() itself as the differential partner.",
)

PROPS["C04"] = dict(
    title="The newest revision of an object always wins",
    level="exploration",
    technique="generated revision histories with a unique marker per (object, revision) written by an independent PDF writer; the library's get_object results (all presets) are compared offline with the generator's model after an independent strict reader has confirmed the model; recovery variant with damaged startxref/xref where 'last definition by offset' is the model; hook events tell whether the recovery path really ran",
    stages=[py("pyref.checks.c04", args={"phase": "gen"}), rust(id="OBS", args={"dir": "{out}/cases"}), py("pyref.checks.c04", args={"phase": "check"})],
    rule="history = base of 4-12 objects + 1-5 appended revisions; each revision independently a classic table or an xref stream; each touched object is redefined (plain or inside an object stream), freed, or re-added with a bumped generation; every fifth history is the recovery family (classic only, startxref/xref damaged). Non-trivial: the history contains a transition between storage forms (table<->stream, plain<->compressed, live<->free); distinct by history id; the evidence lists every (old form -> new form) transition observed",
    assumptions=["pdfgen (independent writer) and pdf.Document (independent strict reader) agree with the model before the library is judged; a disagreement is a harness error (inconclusive)",
                 "a freed object may read as null or as an error, never as a stale value"],
    floors={"quick": {"evaluations": 1000, "distinct": 500, "counters": {"observations": 3000, "recovery_path_taken": 300}},
            "thorough": {"evaluations": 12000, "distinct": 6000, "counters": {"observations": 36000}}},
    level_text="Sampled histories with an exact oracle per object (unique markers make the observed revision unambiguous).",
    level_note="Trusted base: pyref/pdfgen.py + pyref/pdf.py (anchored to qpdf fixtures for encryption, to the repository fixtures for reading).",
)

PROPS["C18"] = dict(
    title="Page-tree navigation follows document order and inheritance",
    level="exploration",
    technique="generated page trees (independent writer) whose leaves carry a unique /VerifId and whose inheritable attributes carry unique markers; page_count/get_page under every preset are compared offline with the generator's document-order model (confirmed first by an independent flattener); inconsistent trees (wrong /Count, shared kids, cycles, wrong /Parent) are judged for order-consistency, panics and termination",
    stages=[py("pyref.checks.c18", args={"phase": "gen"}), rust(id="OBS", args={"dir": "{out}/cases"}), py("pyref.checks.c18", args={"phase": "check"})],
    rule="trees of depth <=5 (quick) / 8, fan-out <=5 / 12, up to 40 / 400 leaves, /Kids direct or indirect, MediaBox/CropBox/Rotate/Resources placed at random levels, objects written in shuffled order, classic or stream xref; every third tree is inconsistent. Non-trivial: >=3 leaves; distinct by tree id",
    assumptions=["for inconsistent trees only order-consistency of what is returned, absence of panics and termination are judged (errors and shorter lists are accepted)"],
    floors={"quick": {"evaluations": 1000, "distinct": 700, "counters": {"observations": 4000}}, "thorough": {"evaluations": 8000, "distinct": 4000}},
    level_text="Sampled trees, exact oracle per page (unique ids and markers).",
    level_note="Trusted base: pyref/pdfgen.py, pyref/pdf.py page flattener.",
)

PROPS["C19"] = dict(
    title="Damaged cross-reference data is reconstructed faithfully",
    level="fault_enumeration",
    exhaustive=True,
    technique="fault enumeration: every damage operation of a fixed catalogue (offsets shifted/zeroed/swapped, n/f flipped, generation corrupted, subsection start/count wrong, table / trailer / startxref deleted or pointing elsewhere, %%EOF stripped, garbage appended, CR-only line ends) applied to generated valid single-revision files; the library's view of catalog, page count and every object value (canonical form) after each damage is compared with its own view of the intact file; hook events tell whether the recovery path really ran",
    stages=[py("pyref.checks.c19", args={"phase": "gen"}), rust(id="OBS", args={"dir": "{out}/cases"}), py("pyref.checks.c19", args={"phase": "check"})],
    rule="base files from the independent writer (1-3 pages, fonts, info, extra objects and streams, shuffled object order, every fourth with object-header look-alikes inside stream data) x every single damage of the catalogue (23 ops, all enumerated per file; thorough adds sampled pairs) x presets default/tolerant/skip_errors. Every (file, damage) is non-trivial; distinct by (file, damage)",
    assumptions=["objects are compared as values (dictionaries order-free, streams by dictionary + raw-data hash) against the same preset's reading of the intact file"],
    floors={"quick": {"evaluations": 3000, "distinct": 3000, "counters": {"observations": 9000, "recovery_path_taken": 2000}}, "thorough": {"evaluations": 30000, "distinct": 30000}},
    level_text="All single damages of the catalogue are enumerated for every generated file (exhaustive over the catalogue, sampled over files and over damage pairs).",
    level_note="Trusted base: pyref/pdfgen.py for the intact files; the library's own intact reading is the comparison baseline.",
)

PROPS["C06"] = dict(
    title="Encrypted files interoperate with an independent implementation",
    level="exploration",
    technique="differential monitor against an independent implementation of the standard security handler (pyref.crypto, itself required on every setup to decrypt the repository's 16 qpdf-encrypted fixtures with both passwords): documents encrypted by the reference must read back, after unlock with either password, as their plaintext objects (canonical value comparison of every object, stream data by hash); each difference is classified (left as ciphertext / decrypted once too often / decryption error / password refused) so that known gaps are keyed exactly; direction B (library encrypts, reference decrypts) runs on C05's files",
    stages=[py("pyref.checks.c06", args={"phase": "gen"}), rust(id="OBS", args={"dir": "{out}/cases"}), py("pyref.checks.c06", args={"phase": "check"})],
    rule="plaintext document (strings in Info incl. non-ASCII bytes and nesting, annotation strings, content/XMP/binary streams with strings in stream dictionaries) x {RC4-40 R2, RC4-128 R3, RC4 V4, AES-128 R4, AES-256 R6} x EncryptMetadata on/off x {classic, object streams + xref stream} x Identity crypt-filter stream x password classes {empty, ASCII, symbols, Latin-1, 40 bytes, BMP, astral} x {user, owner, wrong password}. Non-trivial: object-stream layout, or EncryptMetadata false, or a non-ASCII password; distinct by (case, password role)",
    assumptions=["the reference encryptor/decryptor is anchored to real qpdf output through the fixtures self-test (same algorithms, other direction) and must round-trip each generated file itself before the library is judged",
                 "passwords that PDFDocEncoding cannot represent are not used with R<=4 (no defined behaviour)"],
    floors={"quick": {"evaluations": 600, "distinct": 300, "counters": {"observations": 1000}}, "thorough": {"evaluations": 6000, "distinct": 3000}},
    level_text="Sampled configurations with an exact per-object oracle; the evidence lists the (mode x layout x EncryptMetadata x password class) cells exercised.",
    level_note="Trusted base: pyref/crypto.py (FIPS-197 / RFC 6229 vectors, OpenSSL cross-check, qpdf fixtures), pyref/pdfgen.py. qpdf itself is not installed.",
)

PROPS["C23"] = dict(
    title="Cryptographic building blocks match their reference definitions",
    level="exploration",
    technique="offline checker over logged (function, inputs, output) tuples: every output of the library's RC4, AES-CBC/ECB, Algorithms 1-10/13 and 2.B, and permission-bit functions is recomputed with an independent implementation (pyref.crypto: hashlib + OpenSSL libcrypto with a pure-Python FIPS-197 cross-check, anchored to RFC 6229 / FIPS-197 vectors and the qpdf fixtures); salted outputs are checked by extracting the salt; encrypt/decrypt round trips are asserted in-process",
    stages=[rust(), py("pyref.checks.c23")],
    rule="RC4 keys 1-32 bytes x data lengths {0,1,7,15,16,17,31,32,33,64,100,255,256,1000,4096,1 MiB}; AES-128/256 CBC (PKCS#7), raw CBC, ECB over the same lengths; R2/R3/R4 and R5/R6 handlers over a password pool {empty, ASCII, exactly 32, >32, >127 bytes, Latin-1, PDFDoc-only, BMP, CJK, astral, strings that SASLprep changes} x file ids of 0/1/16/32 bytes x permission words; Algorithm 2.B over random passwords 0-127 bytes with and without the 48-byte U input. Non-trivial: non-ASCII password or non-empty data; distinct by input tuple",
    assumptions=["R<=4 passwords are compared per Algorithm 2 (PDFDocEncoding); passwords PDFDocEncoding cannot represent are skipped for R<=4; R5/R6 passwords per SASLprep + UTF-8 truncated to 127 bytes"],
    floors={"quick": {"evaluations": 5000, "distinct": 3000}, "thorough": {"evaluations": 300000, "distinct": 150000}},
    level_text="Sampled inputs over every length class and password class with an exact reference value per call.",
    level_note="Trusted base: pyref/crypto.py, Python hashlib, OpenSSL 3 libcrypto.",
)

PROPS["C02"] = dict(
    title="Documents written by the library read back with the same content",
    level="exploration",
    technique="authoring programs (seeded public-API call sequences, replayable as JSON) executed under all 32 writer configurations; three-way comparison of the program's model (page sizes, rotation, the content bytes each page generated in memory via the verif_generate_content hook, supplied image samples, annotation counts) with what an independent strict reader (pyref) and the library's own reader (strict and default presets) find in the written bytes; content is compared as token sequences, images as decoded samples",
    stages=[rust(id="DOC", args={"flavor": "c02"}), rust(id="OBS", args={"dir": "{out}/cases"}), py("pyref.checks.docchecks", args={"prop": "C02"})],
    rule="program = 1-6 pages (5 page sizes incl. fractional, rotation 0/90/180/270), 3-30 drawing/text steps per page (paths, fills, strokes, RGB/gray/CMYK colours, line width, q/Q, cm, text in 8 standard fonts with delimiters and Latin-1), raw RGB / gray / RGBA images, annotations, outlines, metadata; every program under xref table|stream x object streams x compression x version 1.4/1.5/1.7/2.0. Non-trivial: >=2 pages or >=1 image, and >=10 operators; distinct by (program, configuration)",
    assumptions=["the model's content is the page's own in-memory serialisation (hook H5); API-call -> operator fidelity is C21's subject", "annotation, outline and metadata *text* is judged by C10/C28, here only counts"],
    floors={"quick": {"evaluations": 300, "distinct": 150, "counters": {"obs": 500, "programs_with_100_or_more_pages": 1, "programs_reusing_one_image_name_across_pages": 1}}, "thorough": {"evaluations": 1000, "distinct": 400}},
    level_text="Sampled programs, exhaustive over the 32-point configuration lattice for each program; exact oracles (token and sample equality).",
    level_note="Trusted base: pyref/pdf.py (strict reader, anchored to repository fixtures), hook H5.",
)

PROPS["C03"] = dict(
    title="Written files are structurally valid PDF",
    level="exploration",
    technique="independent structural validator (pyref.validate: header, every in-use xref entry exactly at 'N G obj', 20-byte entries, startxref target, /Size, stream /Length, dangling references, token syntax, object-stream and xref-stream consistency, /Encrypt + /ID for encrypted files) over files written under every configuration, plus a monitor on the library's own strict/default open of the same bytes that reports any recovery / reconstruction hook event",
    stages=[rust(id="DOC", args={"flavor": "c03"}), rust(id="OBS", args={"dir": "{out}/cases"}), py("pyref.checks.docchecks", args={"prop": "C03"})],
    rule="C02's programs with hostile text (delimiters, controls, cp1252, BMP, astral) in content, metadata, annotations and outlines x 32 configurations, a quarter of them additionally encrypted (4 strengths). Every written file counts as non-trivial; distinct by file",
    assumptions=["only rules the specification states with 'shall'; whitespace and key order are free", "a benign hybrid scan (xref.hybrid_fill) is not counted as recovery"],
    floors={"quick": {"evaluations": 300, "distinct": 300, "counters": {"opened_without_recovery": 400}}, "thorough": {"evaluations": 600, "distinct": 300}},
    level_text="Sampled programs x all configurations, each file judged by an independent validator and by the hook-instrumented library reader.",
    level_note="Trusted base: pyref/validate.py (self-test with one negative file per rule), pyref/pdf.py, hooks H3.",
)

PROPS["C05"] = dict(
    title="Encryption round-trips for every strength, configuration and password",
    level="exploration",
    technique="differential monitor: every authoring program is written plain and encrypted (4 strengths) under sampled writer configurations; the numbering-independent object graph reachable from /Root and /Info (strings, stream dictionaries, decoded stream data by hash) read back through the library after unlock(user) and unlock(owner) must equal the plain build's graph; the independent implementation (pyref.crypto) decrypts the same file and must reach the same graph (this is also C06's direction B); wrong passwords must be refused and must not expose the plaintext graph; /P must equal the requested permissions",
    stages=[rust(id="DOC", args={"flavor": "c05"}), rust(id="OBS", args={"dir": "{out}/cases"}), py("pyref.checks.c05")],
    rule="programs (strings in Info, annotations, outlines; content and image streams) x 5 sampled configurations x {RC4-40, RC4-128, AES-128, AES-256} x password pairs from {empty, ASCII, symbols, Latin-1, BMP, astral, 33 bytes, 127 bytes} x permission words (random 8-bit sets, all) x {user, owner, wrong password}. Every (file, password role) counts; distinct by (file, role)",
    assumptions=["the plain build of the same program under the same configuration is the reference content", "an empty user password makes the wrong-password case moot (anybody may open the file)"],
    floors={"quick": {"evaluations": 800, "distinct": 500, "counters": {"ref_decryptions": 300, "obs": 500}}, "thorough": {"evaluations": 3000, "distinct": 1500}},
    level_text="Sampled programs, configurations and passwords with an exact graph-equality oracle on both the library's and the independent implementation's reading.",
    level_note="Trusted base: pyref/crypto.py (anchored to qpdf fixtures), pyref/pdf.py.",
)

PROPS["C20"] = dict(
    title="Writing the same document twice gives identical bytes",
    level="exploration",
    technique="byte-equality monitor: each authoring program (fonts, images, ExtGStates, annotations, outlines, named destinations) is serialised through PdfWriter::write_document (dates set explicitly) twice from one Document, once more from a freshly built Document, and by a second process with different hash seeds; any difference is a violation with the first differing offset; for to_bytes() one second apart, differing bytes must lie inside date fields",
    stages=[rust(id="C20"), py("pyref.checks.c20")],
    rule="rich docgen programs x all unencrypted writer configurations (quick: the 16 without object streams + 2 sampled with) x {same Document twice, fresh Document, second process}. Every (program, configuration) counts; distinct by (program, configuration)",
    assumptions=["dates are fixed with set_creation_date / set_modification_date and write_document is called directly (no Utc::now() on that path)"],
    floors={"quick": {"evaluations": 1500, "distinct": 800, "counters": {"cross_process_pairs_compared": 700}}, "thorough": {"evaluations": 8000, "distinct": 4000}},
    level_text="Sampled programs over the configuration lattice with an exact oracle; cross-process comparison exercises different HashMap seeds.",
    level_note="Trusted base: none beyond byte comparison.",
)

PROPS["C10"] = dict(
    title="Text given through the API reads back unchanged",
    level="exploration",
    technique="round-trip oracle over text classes: strings given to set_title/author/subject/keywords/creator/producer, annotation contents and outline titles are read back from the written bytes by an independent reader applying the text-string rule of ISO 32000-1 7.9.2.2 (UTF-16BE BOM, UTF-8 BOM, else PDFDocEncoding) and by the library (metadata()); differences are classified by how the bytes were actually encoded",
    stages=[rust(id="DOC", args={"flavor": "c10"}), rust(id="OBS", args={"dir": "{out}/cases"}), py("pyref.checks.c10")],
    rule="text classes {ASCII, ASCII with PDF delimiters and backslash, Latin-1, cp1252-only, BMP (Greek/Cyrillic/CJK), astral, controls incl. TAB/CR/LF, BOM-like prefix} x 6 Info entries, annotation /Contents, outline titles x 3 sampled writer configurations. Non-trivial: at least one non-ASCII class in the document; distinct by file",
    assumptions=["form-field values and incremental fills are exercised with C17's histories, not here"],
    floors={"quick": {"evaluations": 600, "distinct": 300, "counters": {"strings_checked": 3000}}, "thorough": {"evaluations": 10000, "distinct": 4000}},
    level_text="Sampled strings per class, exact equality oracle on both readers.",
    level_note="Trusted base: pyref text-string decoder + transcribed PDFDocEncoding table.",
)

PROPS["C28"] = dict(
    title="Outlines and destinations written are navigable as authored",
    level="exploration",
    technique="structural monitor on the written outline: an independent reader walks /First../Next and checks /Prev, /Parent, /Last, the /Count of every item and of the root against the visible-descendant rule with the closed-item sign convention, titles, and that every /Dest and every named destination (through the /Names tree, any depth) resolves to the authored page object",
    stages=[rust(id="DOC", args={"flavor": "c28"}), py("pyref.checks.c28")],
    rule="outline forests (depth <=4, 0-4 children per item, random closed flags, 5 destination kinds on random pages) and 0-12 named destinations, on 1-6 page documents x 3 sampled configurations; half of the unencrypted cases are written a second time from the same Document after encryption was switched on (object numbers shift). Non-trivial: document has an outline or named destinations; distinct by file",
    assumptions=["titles are ASCII here (Unicode titles are C10's subject)"],
    floors={"quick": {"evaluations": 600, "distinct": 400, "counters": {"outline_items_checked": 2000, "second_writes_after_a_change": 100}}, "thorough": {"evaluations": 12000, "distinct": 6000}},
    level_text="Sampled forests with an exact structural oracle.",
    level_note="Trusted base: pyref/pdf.py.",
)

PROPS["C09"] = dict(
    title="Serialized objects parse back to the same value",
    level="exploration",
    technique="round-trip oracle on the serialisers themselves (hook H4): generated object trees are serialised by the writer's direct and object-stream serialisers and by the incremental writer's serialiser; the bytes are parsed back by the library's parser (in process) and by an independent strict parser (offline), both compared value-by-value with the tree; single characters are enumerated exhaustively in names, byte strings and text strings",
    stages=[rust(), py("pyref.checks.c09")],
    rule="trees to depth 6 / 200 nodes over null, booleans, integers incl. i64::MIN/MAX, reals incl. subnormals and values up to 3e38, text strings (ASCII, delimiters, CR/LF/TAB, Latin-1, BMP, astral), byte strings over all byte values, names (regular, with space, delimiters, '#', empty, non-ASCII, controls), references, arrays, dictionaries; plus every single byte 0..255 inside a name, a byte string and a text string. Non-trivial: containers and the single-character cases; distinct by case id",
    assumptions=["Object::String carries text: it must read back as the same text under the text-string rule (7.9.2.2); Object::ByteString carries bytes and must read back byte-exact", "reals are compared within the writer's 6-decimal format"],
    floors={"quick": {"evaluations": 20000, "distinct": 5000, "counters": {"serialisations_read_by_reference": 40000}}, "thorough": {"evaluations": 1000000, "distinct": 200000}},
    level_text="Sampled trees plus exhaustive single-character enumeration; exact value oracle on two parsers.",
    level_note="Trusted base: pyref/pdf.py strict lexer; hook H4 calls the writer's own private serialisers.",
)

PROPS["C21"] = dict(
    title="Content streams parse back to the operators that were written",
    level="exploration",
    technique="three-way comparison per generated API-call sequence: the page's typed operator IR (hook H5), an independent strict tokenisation of the emitted content bytes, and the result of ContentParser::parse on those bytes; operands after the documented rounding and finite_or_zero sanitising, show-text operands as the WinAnsi bytes of the input text; panic monitor and CPU budget for ContentParser::parse on arbitrary and mutated bytes",
    stages=[rust(), py("pyref.checks.c21")],
    rule="sequences of 1-25 calls over 34 GraphicsContext/TextContext methods (paths, painting, RGB/gray/CMYK colours, line state, dash, q/Q, cm variants, clipping, ExtGState opacity, text state and show-text in 5 fonts) with arguments from {uniform, 0, -0.0, 0.004/0.005/0.006, +-1e-7, 1e15, 1e300, 5e-324, NaN, +-inf}; termination part: random bytes, mutated seeds, deep array nesting, truncated inline images. distinct_nontrivial = distinct emitted content streams",
    assumptions=["IR variants without a modelled operator (comments, raw) are skipped in the operand comparison but still counted", "Symbol/ZapfDingbats text bytes are not compared (font-specific encodings)"],
    floors={"quick": {"evaluations": 50000, "distinct": 8000, "counters": {"sequences_checked": 10000}}, "thorough": {"evaluations": 2000000, "distinct": 250000}},
    level_text="Sampled call sequences with exact operator/operand oracles; termination clause by bounded CPU budget per input.",
    level_note="Trusted base: pyref content tokenizer; hook H5.",
)

PROPS["C01"] = dict(
    title="Reading any byte sequence never crashes, hangs or exhausts memory",
    level="exploration",
    technique="supervised execution under in-process monitors: every input is opened under all six strictness presets and walked by a fixed navigation script (catalog, info, metadata, every object incl. stream decode and bounded decode, page count, pages, resources, annotations, content parsing, text extraction) inside a worker process with a panic hook, a counting allocator with a per-case ceiling, thread-CPU accounting and a byte-counting reader; the supervisor attributes signals (SIGSEGV = stack overflow, SIGABRT = allocation ceiling) and CPU-budget overruns (measured from /proc, load independent) to the case in flight; wall-clock expiry alone is inconclusive",
    stages=[rust()],
    rule="inputs <= 256 KiB: (a) systematic numeric-slot mutation: every occurrence of /Size /Prev /W /Index /N /First /Length /Predictor /Colors /Columns /BitsPerComponent /Rotate /Count /Rows /K /EarlyChange /Width /Height /XRefStm /Extends, xref subsection headers and entry offsets in 8 template files (library-written under 6 configurations + hand-written xref-stream/object-stream/predictor/incremental skeletons) x a pool of 22 boundary integers, (b) pairs of slots, (c) random bytes, (d) byte/structure mutations (flip, overwrite, delete, insert, truncate, splice, keyword insertion, deep nesting) of templates and of the 40+ repository PDFs. Non-trivial: some preset got past the header; distinct by input bytes. Budgets: 20 s thread CPU, reads <= 4096 x len + 64 MiB, live heap <= 768 MiB + 80 x len",
    assumptions=["Err results are always fine; only process-level events (panic, abort, SIGSEGV, budget overruns) count", "budgets restate 'unboundedly long / without bound' as bounded statements for inputs of at most 256 KiB"],
    floors={"quick": {"evaluations": 8000, "distinct": 5000, "counters": {"slot_x_pool_cases": 2000, "cases_supervised": 8000}}, "thorough": {"evaluations": 300000, "distinct": 200000}},
    level_text="Sampled hostile inputs with systematic enumeration of (numeric slot x boundary value) on the templates; every case is judged by monitors observing the real execution.",
    level_note="Trusted base: the monitors in harness/src/mon.rs and the supervisor in wl/c01.rs. No claim for inputs larger than 256 KiB or for paths the navigation script does not call.",
)

PROPS["C14"] = dict(
    title="RAG chunking is a faithful, budget-respecting partition",
    level="exploration",
    technique="in-process monitor over the chunks returned by HybridChunker::chunk and chunk_with_graph: every generated element carries its index, so conservation, multiplicity, order, fragment concatenation, budget (recounted with the same counter), heading and determinism are read off each execution's output",
    stages=[rust()],
    rule="element sequences of 0-60 elements over all nine Element variants (empty, delimiter-only, one giant sentence, long words, tables, images), parent_heading correct / absent / stale / unknown, duplicate title texts, elements before the first title; x max_tokens {0,1,2,7,64,512} x merge on/off x both merge policies x propagate on/off x 4 context modes x 5 token counters (word proxy, ceil(chars/4), separator-charging, sub-word, and one that lies about additivity: excluded from the budget clause). Non-trivial: >= 2 elements and >= 1 chunk; distinct by (case, entry point)",
    assumptions=["whitespace is not content: fragments are compared with all whitespace removed", "a chunk's heading may be either its first element's parent_heading or the text of the title that precedes it in the input; a title governs itself", "a list item split at sentence boundaries may come back as paragraph fragments"],
    floors={"quick": {"evaluations": 60000, "distinct": 30000, "counters": {"split_elements": 1000, "oversized_chunks": 1000}}, "thorough": {"evaluations": 4000000, "distinct": 2000000}},
    level_text="Sampled sequences; the oracle is exact on each (unique indices), so any loss, duplication, reordering, unmeasured budget approval or wrong heading in an explored case is reported.",
    level_note="Trusted base: the generator's model of 'governing title' and the counters defined in harness/src/wl/c14.rs.",
)

PROPS["C26"] = dict(
    title="CMaps map every code to the Unicode they define",
    level="exploration",
    technique="in-process reference-model monitor: the generator's entry list is the model; CMap::parse / map / is_valid_code / to_unicode are probed at and around every entry and codespace boundary (complete enumeration of 1-byte and, for sampled cases, 2-byte code spaces) in a canonical and a lexically varied rendering; ToUnicodeCMapBuilder output is parsed back and compared entry by entry with the map it was built from",
    stages=[rust()],
    rule="code spaces of 1-4 bytes incl. mixed widths (Shift-JIS and EUC shapes) and non-rectangular-looking ranges such as <8140><9FFC>; bfchar, bfrange in offset form (incl. ranges whose low byte carries, astral surrogate pairs, multi-character destinations) and array form (incl. fewer destinations than codes); sections of more than 100 entries split; overlapping entries in a quarter of the cases (any defined value accepted there); renderings: LF / CRLF / CR line ends, comments, everything on one line, no spaces, spaces inside hex strings, lowercase hex, missing counts. Builder: 0-5000 entries, code length 1-4, dense and sparse, BMP / astral / multi-character values, add_single_byte_mapping. Non-trivial: >= 2 entries; distinct by case",
    assumptions=["codespace membership is byte-wise (ISO 32000-1 9.7.6.2, Adobe TN 5014)", "bfrange offset arithmetic carries across bytes of the destination; generated destinations never overflow or leave the surrogate ranges", "explicit entries that lie outside the declared codespace are not judged (the library documents that it honours them, issue #302)", "where entries overlap, any value one of them defines is accepted"],
    floors={"quick": {"evaluations": 6000, "distinct": 3000, "counters": {"codes_probed": 2000000, "builder_entries_checked": 20000, "mapped_probes.bfrange_offset_crossing_byte_boundary": 10000}}, "thorough": {"evaluations": 400000, "distinct": 200000}},
    level_text="Sampled CMaps, boundary-directed and partly exhaustive probing of each; the model is exact on every probed code.",
    level_note="Trusted base: the model interpreter (candidates / in_codespace / dst_plus) in harness/src/wl/c26.rs. The writer's font-driven ToUnicode generation is exercised by C13, not here.",
)

PROPS["C30"] = dict(
    title="Page resource names chosen by the user cannot break the page",
    level="exploration",
    technique="round-trip monitor with two observers: for a generated name and every name-accepting entry point the page is authored through the public API and written; an independent reader (pyref) validates the file, decodes the resource dictionary keys and the content-stream operands and resolves the name to an object of the intended kind; the library's own reader and content parser are judged the same way",
    stages=[rust(), py("pyref.checks.c30")],
    rule="names over classes {plain, each delimiter / white-space / '#', control characters incl. NUL CR LF, Latin-1, BMP, astral, empty, 127 and 300 bytes, random mixtures} x entry points {add_image+draw_image, two images whose names collide under naive escaping, add_form_xobject, add_color_space + named calibrated colour, add_shading + paint_shading, add_font_from_bytes + Font::Custom} x sampled writer configurations. An API that rejects the name with an error is accepted. Non-trivial: the name was accepted and a file was written; distinct by case",
    assumptions=["a name is compared as its UTF-8 bytes after #xx decoding", "rejecting a name with an error does not break the page and is accepted"],
    floors={"quick": {"evaluations": 1500, "distinct": 600, "counters": {"independent_reader_ok": 300}}, "thorough": {"evaluations": 22000, "distinct": 10000}},
    level_text="Sampled names, all entry points; each written file is judged by an independent parser.",
    level_note="Trusted base: pyref/pdf.py and pyref/validate.py. Pattern names and form-field export states are not driven (patterns have no public drawing call that takes a user name).",
)

PROPS["C11"] = dict(
    title="Text extraction conserves every drawn character",
    level="exploration",
    technique="reference-model monitor over real extractions: pages are written directly as PDF syntax (own minimal file builder, not the library's writer) from a generator that records every shown string; TextExtractor::extract_from_page runs under the default options, every single-option flip, all options on, and sampled combinations with sampled thresholds; the monitor compares the multiset of non-white-space characters with the model (ActualText replacement applied, Artifact content dropped unless include_artifacts) and repeats extractions to check determinism",
    stages=[rust()],
    rule="pages of 1-9 text blocks over Tj TJ ' \" Td TD Tm T* Tc Tw Tz TL Ts Tr cm q/Q Do BT/ET, BMC/BDC/EMC (Artifact, Span with ActualText as literal and UTF-16BE hex, MCID), literal strings with octal escapes and hex strings, one or two content streams; fonts: Type1 WinAnsi, Type1 MacRoman, Type1 with /Differences, Type0 Identity-H with generated ToUnicode (bfchar incl. astral and multi-character values, bfrange); geometry: plain, Tm scaling, cm scaling/translation, 90 degree rotation, mirrored; form XObjects nested to depth 2 whose /Resources bind the same font names to different fonts; x 10 fixed + 3 sampled option sets per page. Non-trivial: >= 3 distinct text-positioning/showing operators, or a form XObject, or a Type0 font; distinct by content stream",
    assumptions=["white space is not judged (the extractor synthesises and collapses it)", "the alphabet has no hyphen, no control characters, no combining marks and no compatibility ligatures", "text render mode does not hide text from extraction", "all text lies inside the MediaBox; max_extracted_bytes is None"],
    floors={"quick": {"evaluations": 180000, "distinct": 10000, "counters": {"extractions_judged": 180000, "shows.TJ": 20000, "shows.'": 8000, "shows.\"": 8000, "determinism_reruns": 30000}}, "thorough": {"evaluations": 8000000, "distinct": 400000}},
    level_text="Sampled pages; exact multiset oracle per extraction.",
    level_note="Trusted base: the page generator and its model in harness/src/wl/c11.rs and gen/rawpdf.rs. Reading-order quality and white space are out of scope.",
)

PROPS["C24"] = dict(
    title="Embedded raster images decode to the pixels that were supplied",
    level="exploration",
    technique="round-trip monitor with an independent pixel model: PNG files come from the harness's own encoder, whose RGBA model is first confirmed against the png crate; each goes through Image::from_png_data, a page, the writer and the reader; the stored samples (own inflate, /ColorSpace, /BitsPerComponent, /SMask interpreted by the harness) are compared pixel by pixel with the model; the raw-buffer constructors are compared byte for byte with the supplied buffer",
    stages=[rust()],
    rule="colour type {0,2,3,4,6} x depth {1,2,4,8,16} (valid pairs) x Adam7 on/off x palettes of 1..2^depth entries x tRNS as palette alpha (full and shorter than the palette) and as colour key (present / absent in the image) x sizes 1x1..65x33 incl. widths not a multiple of 8 x every row filter (fixed and per-row mixed) x zlib levels 0/1/6/9 x IDAT split into 1-, 7-, 100-byte chunks x ancillary chunks; raw: from_raw_data (Gray/RGB/CMYK x bpc 1,2,4,8,16), from_rgba_data, from_gray_data; sampled writer configurations. Non-trivial: every case; distinct by PNG bytes",
    assumptions=["colour management (gAMA, iCCP) is applied by neither side", "sources of <= 8 bits must match exactly after scaling by 255/(2^d-1); a 16-bit source stored at 8 bits is reported under its own signature and otherwise compared with a tolerance of one 8-bit step", "the colour of fully transparent pixels is compared too"],
    floors={"quick": {"evaluations": 3000, "distinct": 2000, "counters": {"pixels_compared": 100000, "raw_images_compared": 400}}, "thorough": {"evaluations": 200000, "distinct": 120000}},
    level_text="Sampled images over the full PNG feature lattice with an exact per-pixel oracle.",
    level_note="Trusted base: gen/pnggen.rs (checked against the png crate on every case) and the sample unpacking in wl/c24.rs. JPEG and TIFF import are not driven (no independent decoder available offline).",
)

PROPS["C16"] = dict(
    title="Page operations preserve page content and geometry",
    level="exploration",
    technique="differential monitor through an independent reader: generated source files (own PDF builder) go through split / merge / extract / reorder / reverse / swap / move / rotate via the public file API; pyref reads sources and outputs and compares, for every output page, the source page expected at that position: content tokens, MediaBox incl. origin, CropBox, /Rotate composition, and the fonts and XObjects the content uses (by BaseFont / decoded bytes)",
    stages=[rust(), py("pyref.checks.c16")],
    rule="sources of 1-8 pages, flat or two-level page trees with inherited MediaBox / Resources / Rotate, boxes with non-zero and fractional origins, CropBox, /Rotate in {0,90,180,270,-90,450}, one or two content streams, shared fonts, image and form XObjects; operations with every parameter form: index lists with repeats, all PageRange variants, chunk sizes incl. 0 and > n, several ranges, split points, merges of 2-3 files with per-input ranges, permutations, swaps and moves incl. out-of-range, rotations by 0/90/180/270 of a selection. A selection that is not valid for the document must be refused. Non-trivial: every case; distinct by case",
    assumptions=["a valid selection is one whose indices all exist (Range needs start <= end, List needs at least one index)", "/Rotate is compared modulo 360", "for SplitAt only conservation is judged (all pages once, in order)"],
    floors={"quick": {"evaluations": 1000, "distinct": 900, "counters": {"output_pages_compared": 2500}}, "thorough": {"evaluations": 60000, "distinct": 50000}},
    level_text="Sampled sources and parameters; exact comparison per output page.",
    level_note="Trusted base: pyref/pdf.py and gen/rawpdf.rs. Annotations, outlines and form fields across operations are not judged.",
)

PROPS["C17"] = dict(
    title="Incremental updates are append-only and take effect",
    level="exploration",
    technique="history monitor over revision chains: generated bases (own PDF builder, classic and object-stream/xref-stream layouts) go through histories of IncrementalFormFiller and IncrementalTextNoteEditor edits; every revision is kept and judged by an independent reader: byte-prefix (append-only), strict parse and validation of the chain, edited values read back (independent reader and the library's own reader), and object-by-object equality of everything outside the edit's change set",
    stages=[rust(), py("pyref.checks.c17")],
    rule="bases with 1-3 pages, 1-5 text fields incl. a non-terminal parent (address.street), 0-2 text notes per page, a bystander content stream; layouts classic / object stream + xref stream; histories of 1-5 edits mixing fill, fill_many, and note add / update / remove batches; values over {ascii, empty, delimiters, Latin-1, cp1252 punctuation, BMP, astral, control characters, BOM-like prefix, long}. Non-trivial: at least one edit produced a revision; distinct by case",
    assumptions=["a form edit may rewrite fields, widgets, appearance streams, the AcroForm dictionary and the catalog; a note edit may rewrite pages, text and popup annotations and indirect /Annots arrays; every other object must be identical", "a note's position is the lower-left or upper-left corner of its /Rect", "an edit the library refuses with an error (e.g. a value its appearance font cannot show, an empty note) is not judged"],
    floors={"quick": {"evaluations": 1200, "distinct": 900, "counters": {"revisions": 1800, "objects_compared": 25000, "values": 2500}}, "thorough": {"evaluations": 40000, "distinct": 30000}},
    level_text="Sampled histories with exact per-revision oracles.",
    level_note="Trusted base: pyref/pdf.py, pyref/validate.py, gen/rawpdf.rs. write_incremental_with_page_replacement / _with_overlay (path-based writer entry points) are not driven.",
)

PROPS["C15"] = dict(
    title="The document-to-chunks pipeline preserves content and provenance",
    level="exploration",
    technique="end-to-end reference-model monitor: multi-page documents are authored through the public API from a model with unique marker words; the written file is reopened and run through rag_chunks / rag_chunks_with / rag_chunks_with_source(_and_config) / rag_chunks_json; the monitor reads the returned chunks and decides conservation (every marker in exactly one chunk), provenance (page_numbers = authored pages), heading context (governing authored heading, only when the classifier promoted the authored headings) and determinism (second run over a fresh parse serialises identically)",
    stages=[rust()],
    rule="1-5 pages, up to 6 blocks per page: headings (bold 16-24 pt) with 1/3 probability, paragraphs and list items of 1-5 lines of unique words in 10-11 pt, page breaks inside sections, documents without headings; body kept out of the top/bottom header and footer bands; x default configuration and 3 sampled HybridChunkConfig (max_tokens 8..512, merge, propagation, both policies, 4 context modes) x 2 entry points + the JSON entry point. Non-trivial: at least one chunk; distinct by (case, configuration, entry point)",
    assumptions=["headings are judged only on documents whose authored headings were all classified as titles (precondition counted in the evidence)", "page numbers may be 0- or 1-based but must be consistent within a result", "a chunk that begins with a heading line may carry that heading"],
    floors={"quick": {"evaluations": 3000, "distinct": 2500, "counters": {"marker_words_tracked": 300000, "determinism_reruns": 2500, "heading_clause_judged": 800}}, "thorough": {"evaluations": 150000, "distinct": 120000}},
    level_text="Sampled documents and configurations; exact marker-level oracle.",
    level_note="Trusted base: the authoring model in harness/src/wl/c15.rs. Tables (add_table) and cross-process determinism are not driven; ids are compared between two runs in one process only.",
)

PROPS["C12"] = dict(
    title="Font subsetting keeps every requested glyph intact",
    level="exploration",
    technique="differential monitor with an independent sfnt reader: subset_font / subset_font_by_gids run on real fonts with generated character and glyph sets; pyref/font.py parses original and subset (directory order, bounds, alignment, checksums, loca/glyf/maxp/hhea/hmtx consistency) and compares, for every requested character the original maps, the flattened outline (composites resolved with their transforms) and the advance width of the glyph the returned mapping points to",
    stages=[rust(id="FNT", args={"flavor": "c12"}), py("pyref.checks.c12")],
    rule="fonts: Roboto-Regular, DejaVu Sans / Serif-Italic / Mono-Bold / Condensed (composite-heavy, >5000 glyphs), SourceSans3 (CFF: mapping only); character sets of size 0,1,2,9,10,11,30,120,400 and the whole pool (ASCII, Latin-1, Greek, Cyrillic, typographic punctuation) incl. characters the font lacks; glyph sets of 0-400 random glyph ids. Non-trivial: every case; distinct by case",
    assumptions=["the subsetter deliberately omits cmap / OS/2 / name and rewrites post: well-formed means the tables a PDF consumer needs (glyf head hhea hmtx loca maxp)", "CFF outlines are not interpreted: for CFF fonts only the glyph mapping is judged", "refusing a request with an error is accepted unless the set contains a character the font maps"],
    floors={"quick": {"evaluations": 500, "distinct": 450, "counters": {"glyphs_compared": 8000, "subsets_parsed": 250}}, "thorough": {"evaluations": 30000, "distinct": 25000}},
    level_text="Sampled sets on six real fonts; exact outline and metric comparison per requested glyph.",
    level_note="Trusted base: pyref/font.py (self-tested on the fixtures). No generated (synthetic) fonts: composite nesting, loca formats and cmap formats are those of the fixtures.",
)

PROPS["C13"] = dict(
    title="Text in embedded fonts is recoverable exactly",
    level="exploration",
    technique="round-trip monitor with an independent reader: documents authored with embedded custom fonts are written and read by pyref: the codes of every shown string go through the font's /ToUnicode CMap and must give the authored text; /W (or /DW) of each used CID must equal the original font's advance in 1/1000 em (+-1); for TrueType programs the embedded glyph selected through /CIDToGIDMap must have the flattened outline of the original glyph of that character (pyref/font.py); the library's own extraction must yield the same non-white-space characters",
    stages=[rust(id="FNT", args={"flavor": "c13"}), py("pyref.checks.c13")],
    rule="fonts: Roboto, four DejaVu faces, SourceSans3 (CFF); 1-3 pages, 1-6 shows per page of 1-24 characters over ASCII, Latin-1, Greek, Cyrillic and typographic punctuation, repeated characters, two embedded fonts in one document, sizes 9/12/18, sampled writer configurations. Non-trivial: every case; distinct by case",
    assumptions=["characters the font does not map are not compared for width/outline", "CFF glyph programs are not interpreted (widths and ToUnicode are still judged)", "the library's extraction is compared as a multiset of non-white-space characters per page, with merge_hyphenated off (line-end hyphens are merged away by default, by design)"],
    floors={"quick": {"evaluations": 300, "distinct": 280, "counters": {"shows_decoded": 800, "cids_checked": 5000, "outlines_compared": 3500}}, "thorough": {"evaluations": 20000, "distinct": 18000}},
    level_text="Sampled documents on six real fonts; exact text, metric and outline comparison per used character.",
    level_note="Trusted base: pyref/pdf.py, pyref/font.py, the ToUnicode reader in pyref/checks/c13.py. Astral characters and fonts with cmap formats other than 4/12 are not driven.",
)
