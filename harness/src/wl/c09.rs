//! C09 — serialised objects parse back to the same value. Object trees are
//! serialised with the writer's two serialisers (hook H4) and with the
//! incremental writer's serialiser, parsed back by the library's parser here,
//! and logged for the independent parser (pyref/checks/c09.py).
use crate::rec::hex;
use crate::{Ctx, Recorder, Rng};
use oxidize_pdf::objects::{Dictionary, Object, ObjectId};
use oxidize_pdf::parser::lexer::Lexer;
use oxidize_pdf::parser::objects::{PdfArray, PdfDictionary, PdfName, PdfObject, PdfString};
use oxidize_pdf::writer::{verif_serialize_object, verif_serialize_parser_object};
use serde_json::{json, Value};
use std::io::{Cursor, Write};

fn gen_string(r: &mut Rng) -> String {
    match r.below(8) {
        0 => String::new(),
        1 => "plain ascii".into(),
        2 => "par(en)s \\ back) (un(balanced".into(),
        3 => "line\nfeed\rcr\r\ncrlf\ttab".into(),
        4 => "Año café ü € “q”".into(),
        5 => "Ωμέγα 漢字 😀".into(),
        6 => (0..r.urange(1, 40)).map(|_| char::from_u32(0x20 + r.below(0x5F) as u32).unwrap()).collect(),
        _ => (0..r.urange(1, 12)).map(|_| char::from_u32(0xA0 + r.below(0x2F00) as u32).unwrap_or('x')).collect(),
    }
}

fn gen_name(r: &mut Rng, single: Option<u32>) -> String {
    if let Some(cp) = single {
        return format!("N{}x", char::from_u32(cp).unwrap_or('?'));
    }
    match r.below(10) {
        0 => "Type".into(),
        1 => "Name1".into(),
        2 => "A B".into(),
        3 => "Lime#Green".into(),
        4 => "paired()parens".into(),
        5 => "a/b<c>d[e]f{g}h%i".into(),
        6 => String::new(),
        7 => "Año€漢".into(),
        8 => (0..r.urange(1, 10)).map(|_| char::from_u32(0x21 + r.below(0x5E) as u32).unwrap()).collect(),
        _ => "tab\tcr\rlf\nend".into(),
    }
}

fn gen_obj(r: &mut Rng, depth: usize, budget: &mut usize) -> Object {
    *budget = budget.saturating_sub(1);
    let leaf = depth >= 6 || *budget == 0;
    match r.below(if leaf { 8 } else { 11 }) {
        0 => Object::Null,
        1 => Object::Boolean(r.bool()),
        2 => Object::Integer(*r.pick(&[0, 1, -1, 42, i32::MAX as i64, i32::MIN as i64, i64::MAX, i64::MIN, 1 << 40])),
        3 => Object::Real(*r.pick(&[0.0, -0.0, 1.5, -2.25, 0.000001, 0.0000004, 123456.789012, 3.0e38, -3.0e38, 9.3e18, 5e-324, 1e-7, 3.999999999, 65535.999999])),
        4 => Object::Real((r.f64() - 0.5) * 10f64.powi(r.range(-8, 37) as i32)),
        5 => Object::String(gen_string(r)),
        6 => {
            let n = r.urange(0, 24);
            Object::ByteString(r.bytes(n))
        }
        7 => Object::Name(gen_name(r, None)),
        8 => Object::Reference(ObjectId::new(r.below(100000) as u32, r.below(3) as u16)),
        9 => Object::Array((0..r.urange(0, 5)).map(|_| gen_obj(r, depth + 1, budget)).collect()),
        _ => {
            let mut d = Dictionary::new();
            for _ in 0..r.urange(0, 5) {
                d.set(gen_name(r, None), gen_obj(r, depth + 1, budget));
            }
            Object::Dictionary(d)
        }
    }
}

/// canonical form of the *expected* value (what a reader should see)
fn expect(o: &Object) -> Value {
    match o {
        Object::Null => Value::Null,
        Object::Boolean(b) => json!(b),
        Object::Integer(i) => json!({"i": i}),
        Object::Real(f) => json!({"r": f}),
        Object::String(s) => json!({"text": s}),
        Object::ByteString(b) => json!({"s": hex(b)}),
        Object::Name(n) => json!({"n": hex(n.as_bytes())}),
        Object::Array(a) => Value::Array(a.iter().map(expect).collect()),
        Object::Dictionary(d) => {
            let mut m = serde_json::Map::new();
            for (k, v) in d.entries() {
                m.insert(hex(k.as_bytes()), expect(v));
            }
            json!({"d": m})
        }
        Object::Stream(..) => json!("stream"),
        Object::Reference(id) => json!({"ref": [id.number(), id.generation()]}),
    }
}

fn same(exp: &Value, got: &PdfObject, path: &str) -> Result<(), String> {
    let bad = |what: &str| Err(format!("{path}: {what}: expected {}, parsed {:?}", exp.to_string().chars().take(120).collect::<String>(), got));
    match (exp, got) {
        (Value::Null, PdfObject::Null) => Ok(()),
        (Value::Bool(a), PdfObject::Boolean(b)) if a == b => Ok(()),
        (Value::Array(a), PdfObject::Array(PdfArray(b))) => {
            if a.len() != b.len() {
                return bad("array length");
            }
            for (i, (x, y)) in a.iter().zip(b.iter()).enumerate() {
                same(x, y, &format!("{path}[{i}]"))?;
            }
            Ok(())
        }
        (Value::Object(m), _) => {
            if let Some(i) = m.get("i") {
                return match got {
                    PdfObject::Integer(g) if Some(*g) == i.as_i64() => Ok(()),
                    _ => bad("integer"),
                };
            }
            if let Some(rv) = m.get("r") {
                let want = rv.as_f64().unwrap_or(0.0);
                let g = match got {
                    PdfObject::Real(g) => *g,
                    PdfObject::Integer(g) => *g as f64,
                    _ => return bad("real"),
                };
                return if (g - want).abs() <= 5.1e-7 + want.abs() * 1e-12 { Ok(()) } else { bad("real value") };
            }
            if let Some(t) = m.get("text") {
                let t = t.as_str().unwrap_or("");
                return match got {
                    PdfObject::String(s) if s.0 == t.as_bytes() && t.is_ascii() => Ok(()),
                    PdfObject::String(s) if s.to_text() == t && (s.0.starts_with(&[0xFE, 0xFF]) || t.is_ascii()) => Ok(()),
                    _ => bad("text string"),
                };
            }
            if let Some(s) = m.get("s") {
                return match got {
                    PdfObject::String(g) if hex(&g.0) == s.as_str().unwrap_or("") => Ok(()),
                    _ => bad("byte string"),
                };
            }
            if let Some(n) = m.get("n") {
                return match got {
                    PdfObject::Name(PdfName(g)) if hex(g.as_bytes()) == n.as_str().unwrap_or("") => Ok(()),
                    _ => bad("name"),
                };
            }
            if let Some(rf) = m.get("ref") {
                return match got {
                    PdfObject::Reference(a, b) if json!([a, b]) == *rf => Ok(()),
                    _ => bad("reference"),
                };
            }
            if let Some(Value::Object(dm)) = m.get("d") {
                return match got {
                    PdfObject::Dictionary(PdfDictionary(g)) => {
                        if g.len() != dm.len() {
                            return bad("dictionary size");
                        }
                        for (k, v) in dm {
                            let key = String::from_utf8_lossy(&crate::rec::unhex(k)).to_string();
                            match g.get(&PdfName(key.clone())) {
                                Some(gv) => same(v, gv, &format!("{path}/{key}"))?,
                                None => return bad(&format!("dictionary key {key:?} missing")),
                            }
                        }
                        Ok(())
                    }
                    _ => bad("dictionary"),
                };
            }
            bad("unknown expectation")
        }
        _ => bad("type"),
    }
}

fn classify(o: &Object, _err: &str) -> String {
    // which construct could be responsible? (same vocabulary as pyref/checks/c09.py)
    fn has(o: &Object, f: &dyn Fn(&Object) -> bool) -> bool {
        if f(o) {
            return true;
        }
        match o {
            Object::Array(a) => a.iter().any(|x| has(x, f)),
            Object::Dictionary(d) => d.entries().any(|(k, v)| f(&Object::Name(k.clone())) || has(v, f)),
            _ => false,
        }
    }
    if _err.contains("Invalid integer") || _err.contains("real value") {
        return "extreme_real".into();
    }
    if has(o, &|x| matches!(x, Object::Name(n) if !n.is_ascii())) && (_err.contains("name") || _err.contains("dictionary key")) {
        return "name_with_non_ascii_bytes".into();
    }
    let ascii_irregular = |s: &str| s.is_ascii() && (s.is_empty() || s.bytes().any(|b| b <= 0x20 || b == 0x7F || b"()<>[]{}/%#".contains(&b)));
    if has(o, &|x| matches!(x, Object::Name(n) if ascii_irregular(n))) {
        return "name_with_delimiter_whitespace_or_hash".into();
    }
    if has(o, &|x| matches!(x, Object::Name(n) if !n.is_ascii())) {
        return "name_with_non_ascii_bytes".into();
    }
    if has(o, &|x| matches!(x, Object::Real(f) if f.abs() >= 1e15 || (f.abs() < 1e-6 && *f != 0.0))) {
        return "extreme_real".into();
    }
    if has(o, &|x| matches!(x, Object::String(t) if !t.is_ascii())) {
        return "non_ascii_text_string".into();
    }
    "other".into()
}

fn parse_all(bytes: &[u8]) -> Result<(PdfObject, bool), String> {
    let mut lx = Lexer::new(Cursor::new(bytes.to_vec()));
    let o = PdfObject::parse(&mut lx).map_err(|e| e.to_string())?;
    // anything left over?
    let trailing = !matches!(lx.next_token(), Ok(oxidize_pdf::parser::lexer::Token::Eof) | Err(_));
    Ok((o, trailing))
}

fn to_parser_obj(o: &Object) -> PdfObject {
    match o {
        Object::Null => PdfObject::Null,
        Object::Boolean(b) => PdfObject::Boolean(*b),
        Object::Integer(i) => PdfObject::Integer(*i),
        Object::Real(f) => PdfObject::Real(*f),
        Object::String(s) => PdfObject::String(PdfString(s.as_bytes().to_vec())),
        Object::ByteString(b) => PdfObject::String(PdfString(b.clone())),
        Object::Name(n) => PdfObject::Name(PdfName(n.clone())),
        Object::Array(a) => PdfObject::Array(PdfArray(a.iter().map(to_parser_obj).collect())),
        Object::Dictionary(d) => {
            let mut m = PdfDictionary::new();
            for (k, v) in d.entries() {
                m.insert(k.clone(), to_parser_obj(v));
            }
            PdfObject::Dictionary(m)
        }
        Object::Stream(..) => PdfObject::Null,
        Object::Reference(id) => PdfObject::Reference(id.number(), id.generation()),
    }
}

pub fn run(ctx: &Ctx, rec: &mut Recorder) -> Result<(), String> {
    let path = ctx.out.join(format!("c09-{}.jsonl", ctx.shard));
    std::fs::create_dir_all(&ctx.out).ok();
    let mut f = std::io::BufWriter::new(std::fs::File::create(&path).map_err(|e| e.to_string())?);
    let mut cases: Vec<(String, Object)> = Vec::new();
    // exhaustive single characters in names and strings (first shard only)
    if ctx.shard == 0 {
        for b in 0u32..256 {
            if b != 0 {
                cases.push((format!("name-byte-{b}"), Object::Name(gen_name(&mut Rng::new(1), Some(b)))));
            }
            cases.push((format!("bytestring-{b}"), Object::ByteString(vec![b'a', b as u8, b'z'])));
            if let Some(c) = char::from_u32(b).filter(|c| !((*c as u32) < 0x20 && !"\t\n\r".contains(*c)) && *c as u32 != 0x7F && !(0x80..0xA0).contains(&(*c as u32))) {
                cases.push((format!("string-char-{b}"), Object::String(format!("a{c}z"))));
            }
        }
    }
    // text strings whose UTF-16BE form contains a byte that is special inside a literal string
    // ( ( ) \ CR LF ) in the high or the low half of a code unit, or in a surrogate
    if ctx.shard == 0 {
        for b in [0x28u32, 0x29, 0x5C, 0x0D, 0x0A] {
            for cp in [0x0100 + b, 0x0400 + b, (b << 8) | 0x41, (b << 8) | b, 0x1F500 + b, 0x10000 + (b << 10) + 0x28] {
                if let Some(c) = char::from_u32(cp) {
                    cases.push((format!("string-utf16-special-byte-{b:02x}-{cp:x}"), Object::String(format!("a{c}z{c}"))));
                }
            }
        }
    }
    let n = ctx.qt(30_000u64, 1_500_000u64);
    for c in 0..n {
        if !ctx.mine(c) {
            continue;
        }
        let mut r = Rng::derive(ctx.seed, 9, c);
        let mut budget = 200;
        cases.push((format!("tree-{c}"), gen_obj(&mut r, 0, &mut budget)));
    }
    for (id, o) in cases {
        let exp = expect(&o);
        let nontrivial = matches!(o, Object::Array(_) | Object::Dictionary(_)) || id.starts_with("name-") || id.starts_with("string-");
        rec.case(id.as_bytes(), nontrivial);
        for (mode, ser) in [
            ("direct", crate::mon::guarded(|| verif_serialize_object(&o, false))),
            ("objstm", crate::mon::guarded(|| verif_serialize_object(&o, true))),
        ] {
            let bytes = match ser {
                Err(p) => {
                    rec.violation(format!("C09|panic|serialize|{}", p.site()), p.message.clone(), json!({"case": id, "object": format!("{o:?}").chars().take(400).collect::<String>()}));
                    continue;
                }
                Ok(Err(e)) => {
                    rec.violation(format!("C09|{mode}|serializer_returns_error"), e.to_string(), json!({"case": id}));
                    continue;
                }
                Ok(Ok(b)) => b,
            };
            let w = json!({"case": id, "mode": mode, "bytes_hex": hex(&bytes[..bytes.len().min(2000)]), "object": format!("{o:?}").chars().take(600).collect::<String>()});
            match crate::mon::guarded(|| parse_all(&bytes)) {
                Err(p) => rec.violation(format!("C09|panic|parse|{}", p.site()), p.message.clone(), w.clone()),
                Ok(Err(e)) => rec.violation(format!("C09|{mode}|lib|unparseable|{}", classify(&o, &e)), format!("{id}: {e}"), w.clone()),
                Ok(Ok((got, trailing))) => {
                    if let Err(d) = same(&exp, &got, "") {
                        rec.violation(format!("C09|{mode}|lib|value_differs|{}", classify(&o, &d)), format!("{id}: {d}"), w.clone());
                    } else if trailing {
                        rec.violation(format!("C09|{mode}|lib|trailing_tokens_after_value|{}", classify(&o, "")), format!("{id}"), w.clone());
                    }
                }
            }
            if mode == "direct" {
                let _ = writeln!(f, "{}", json!({"id": id, "ser": "writer", "bytes": hex(&bytes), "expect": exp}));
            }
        }
        // incremental writer's serialiser works on parser objects
        let po = to_parser_obj(&o);
        match crate::mon::guarded(|| verif_serialize_parser_object(&po)) {
            Err(p) => rec.violation(format!("C09|panic|serialize_incremental|{}", p.site()), p.message.clone(), json!({"case": id})),
            Ok(Err(e)) => rec.violation("C09|incremental|serializer_returns_error", e.to_string(), json!({"case": id})),
            Ok(Ok(bytes)) => {
                let w = json!({"case": id, "mode": "incremental", "bytes_hex": hex(&bytes[..bytes.len().min(2000)])});
                match crate::mon::guarded(|| parse_all(&bytes)) {
                    Err(p) => rec.violation(format!("C09|panic|parse|{}", p.site()), p.message.clone(), w),
                    Ok(Err(e)) => rec.violation(format!("C09|incremental|lib|unparseable|{}", classify(&o, &e)), format!("{id}: {e}"), w),
                    Ok(Ok((got, _))) => {
                        // parser object in -> same parser object out (reals within 1e-6)
                        let mut exp2 = exp.clone();
                        fn bytes_expect(v: &mut Value, o: &Object) {
                            match (v, o) {
                                (v, Object::String(s)) => *v = json!({"s": hex(s.as_bytes())}),
                                (Value::Array(a), Object::Array(b)) => a.iter_mut().zip(b.iter()).for_each(|(x, y)| bytes_expect(x, y)),
                                (Value::Object(m), Object::Dictionary(d)) => {
                                    if let Some(Value::Object(dm)) = m.get_mut("d") {
                                        for (k, val) in d.entries() {
                                            if let Some(x) = dm.get_mut(&hex(k.as_bytes())) {
                                                bytes_expect(x, val);
                                            }
                                        }
                                    }
                                }
                                _ => {}
                            }
                        }
                        bytes_expect(&mut exp2, &o);
                        if let Err(d) = same(&exp2, &got, "") {
                            rec.violation(format!("C09|incremental|lib|value_differs|{}", classify(&o, &d)), format!("{id}: {d}"), w);
                        }
                        let _ = writeln!(f, "{}", json!({"id": id, "ser": "incremental", "bytes": hex(&bytes), "expect": exp2}));
                    }
                }
            }
        }
        if rec.samples.len() < 3 && id.starts_with("tree-") {
            rec.sample(json!({"case": id, "object": format!("{o:?}").chars().take(300).collect::<String>()}));
        }
    }
    Ok(())
}
