//! OBS — generic observer: opens the files listed in `<dir>/cases.jsonl` with
//! the library under the requested presets and dumps what a client can see
//! (objects in canonical form, pages, content, metadata, hook events) to
//! `obs-<shard>.jsonl`. The judging is done by the Python checkers.
use crate::dump::{canon, canon_dict, sha1_hex};
use crate::{Ctx, Recorder};
use oxidize_pdf::parser::objects::PdfObject;
use oxidize_pdf::parser::{ParseOptions, PdfReader};
use serde_json::{json, Map, Value};
use std::collections::BTreeMap;
use std::io::{Cursor, Write};
use std::sync::{Arc, Mutex};

pub fn preset(name: &str) -> ParseOptions {
    match name {
        "strict" => ParseOptions::strict(),
        "tolerant" => ParseOptions::tolerant(),
        "lenient" => ParseOptions::lenient(),
        "skip_errors" => ParseOptions::skip_errors(),
        _ => ParseOptions::default(),
    }
}

pub struct EventCounter(pub Arc<Mutex<BTreeMap<&'static str, u64>>>);
impl EventCounter {
    pub fn install() -> Self {
        let m: Arc<Mutex<BTreeMap<&'static str, u64>>> = Arc::new(Mutex::new(BTreeMap::new()));
        let m2 = m.clone();
        oxidize_pdf::verif_hooks::set_sink(Some(Arc::new(move |site, _a, _b| {
            *m2.lock().unwrap_or_else(|e| e.into_inner()).entry(site).or_insert(0) += 1;
        })));
        EventCounter(m)
    }
    pub fn take(&self) -> Value {
        let mut g = self.0.lock().unwrap_or_else(|e| e.into_inner());
        let v = json!(*g);
        g.clear();
        v
    }
}

fn err_val(e: impl std::fmt::Display) -> Value {
    json!({"err": e.to_string().chars().take(300).collect::<String>()})
}

pub fn observe(bytes: &[u8], case: &Value, preset_name: &str, ev: &EventCounter) -> Value {
    let mut out = Map::new();
    out.insert("id".into(), case["id"].clone());
    out.insert("preset".into(), json!(preset_name));
    ev.take();
    let opts = preset(preset_name);
    let mut reader = match PdfReader::new_with_options(Cursor::new(bytes.to_vec()), opts) {
        Ok(r) => r,
        Err(e) => {
            out.insert("open_err".into(), json!(e.to_string().chars().take(300).collect::<String>()));
            out.insert("events".into(), ev.take());
            return Value::Object(out);
        }
    };
    out.insert("open_err".into(), Value::Null);
    out.insert("encrypted".into(), json!(reader.is_encrypted()));
    if let Some(pw) = case.get("password").and_then(|p| p.as_str()) {
        if reader.is_encrypted() {
            match reader.unlock(pw) {
                Ok(()) => out.insert("unlock".into(), json!("ok")),
                Err(e) => out.insert("unlock".into(), err_val(e)),
            };
        }
    }
    out.insert("unlocked".into(), json!(reader.is_unlocked()));
    out.insert("version".into(), json!(reader.version().to_string()));
    // trailer-level
    match reader.catalog() {
        Ok(c) => out.insert("catalog".into(), json!({"d": canon_dict(c, 0)})),
        Err(e) => out.insert("catalog".into(), err_val(e)),
    };
    match reader.info() {
        Ok(Some(i)) => out.insert("info".into(), json!({"d": canon_dict(i, 0)})),
        Ok(None) => out.insert("info".into(), Value::Null),
        Err(e) => out.insert("info".into(), err_val(e)),
    };
    if case.get("metadata").and_then(|b| b.as_bool()).unwrap_or(false) {
        match reader.metadata() {
            Ok(m) => out.insert(
                "meta".into(),
                json!({"title": m.title, "author": m.author, "subject": m.subject, "keywords": m.keywords, "creator": m.creator,
                       "producer": m.producer, "creation_date": m.creation_date, "modification_date": m.modification_date}),
            ),
            Err(e) => out.insert("meta".into(), err_val(e)),
        };
    }
    let decode = case.get("decode").and_then(|b| b.as_bool()).unwrap_or(false);
    // objects
    let mut want: Vec<(u32, u16)> = Vec::new();
    match case.get("objects") {
        Some(Value::Array(a)) => {
            for p in a {
                want.push((p[0].as_u64().unwrap_or(0) as u32, p[1].as_u64().unwrap_or(0) as u16));
            }
        }
        Some(Value::String(s)) if s == "all" => {
            let size = reader.trailer().size().unwrap_or(64).min(2_000_000);
            let n = case.get("max_obj").and_then(|x| x.as_u64()).map(|x| x as u32).unwrap_or(size.saturating_sub(1));
            out.insert("trailer_size".into(), json!(size));
            for i in 1..=n {
                want.push((i, 0));
            }
        }
        _ => {}
    }
    if !want.is_empty() {
        let mut objs = Map::new();
        let enumerating = matches!(case.get("objects"), Some(Value::String(_)));
        let last = want.last().map(|x| x.0).unwrap_or(0);
        let mut misses = 0u32;
        let t_objs = crate::mon::thread_cpu_ns();
        let budget_ns = case.get("cpu_budget_s").and_then(|x| x.as_u64()).unwrap_or(6) * 1_000_000_000;
        for (n, g) in want {
            if crate::mon::thread_cpu_ns() - t_objs > budget_ns {
                out.insert("object_budget_exceeded_at".into(), json!(n));
                break;
            }
            // writers may leave huge gaps in the numbering (free entries): after a long
            // run of absent objects jump to the tail of the number space
            if enumerating && misses >= 40 && n + 4 < last {
                continue;
            }
            let key = format!("{n} {g}");
            let v = match reader.get_object(n, g) {
                Ok(o) => {
                    let o = o.clone();
                    let mut c = canon(&o);
                    if decode {
                        if let PdfObject::Stream(s) = &o {
                            match s.decode(reader.options()) {
                                Ok(d) => {
                                    c["dec_len"] = json!(d.len());
                                    c["dec_sha"] = json!(sha1_hex(&d));
                                }
                                Err(e) => {
                                    c["dec_err"] = json!(e.to_string().chars().take(200).collect::<String>());
                                }
                            }
                        }
                    }
                    c
                }
                Err(e) => err_val(e),
            };
            if v.is_null() || v.get("err").is_some() {
                misses += 1;
                if enumerating && misses > 40 {
                    continue; // do not log the tail of a gap
                }
            } else {
                misses = 0;
            }
            objs.insert(key, v);
        }
        out.insert("objects".into(), Value::Object(objs));
    }
    // pages
    if case.get("pages").and_then(|b| b.as_bool()).unwrap_or(false) {
        match reader.page_count() {
            Ok(n) => {
                out.insert("page_count".into(), json!(n));
                let doc = reader.into_document();
                let maxp = case.get("max_pages").and_then(|x| x.as_u64()).unwrap_or(500) as u32;
                let mut pages = Vec::new();
                let t_pages = crate::mon::thread_cpu_ns();
                let page_budget_ns = case.get("cpu_budget_s").and_then(|x| x.as_u64()).unwrap_or(6) * 1_000_000_000;
                for i in 0..n.min(maxp) {
                    if crate::mon::thread_cpu_ns() - t_pages > page_budget_ns {
                        out.insert("page_budget_exceeded_at".into(), json!(i));
                        break;
                    }
                    match doc.get_page(i) {
                        Ok(p) => {
                            let mut pj = Map::new();
                            pj.insert("obj".into(), json!([p.obj_ref.0, p.obj_ref.1]));
                            pj.insert("media_box".into(), json!(p.media_box));
                            pj.insert("crop_box".into(), json!(p.crop_box));
                            pj.insert("rotation".into(), json!(p.rotation));
                            pj.insert("dict".into(), json!({"d": canon_dict(&p.dict, 0)}));
                            pj.insert("resources".into(), match p.get_resources() {
                                Some(r) => json!({"d": canon_dict(r, 0)}),
                                None => Value::Null,
                            });
                            if case.get("content").and_then(|b| b.as_bool()).unwrap_or(false) {
                                match doc.get_page_content_streams(&p) {
                                    Ok(cs) => {
                                        let joined: Vec<u8> = cs.join(&b'\n');
                                        pj.insert("content_hex".into(), json!(crate::rec::hex(&joined)));
                                        pj.insert("content_parts".into(), json!(cs.len()));
                                    }
                                    Err(e) => {
                                        pj.insert("content_err".into(), err_val(e));
                                    }
                                }
                            }
                            if case.get("text").and_then(|b| b.as_bool()).unwrap_or(false) {
                                match doc.extract_text_from_page(i) {
                                    Ok(t) => pj.insert("text".into(), json!(t.text)),
                                    Err(e) => pj.insert("text".into(), err_val(e)),
                                };
                            }
                            pages.push(Value::Object(pj));
                        }
                        Err(e) => pages.push(err_val(e)),
                    }
                }
                out.insert("pages".into(), Value::Array(pages));
            }
            Err(e) => {
                out.insert("page_count".into(), err_val(e));
            }
        }
    }
    out.insert("events".into(), ev.take());
    Value::Object(out)
}

pub fn run(ctx: &Ctx, rec: &mut Recorder) -> Result<(), String> {
    let dir = std::path::PathBuf::from(ctx.arg("dir").ok_or("OBS needs --arg dir=")?);
    // cases.jsonl and/or cases-<shard>.jsonl files
    let mut cases = String::new();
    let mut names: Vec<_> = std::fs::read_dir(&dir)
        .map_err(|e| format!("{dir:?}: {e}"))?
        .filter_map(|e| e.ok())
        .map(|e| e.file_name().to_string_lossy().to_string())
        .filter(|n| n.starts_with("cases") && n.ends_with(".jsonl"))
        .collect();
    names.sort();
    if names.is_empty() {
        return Err(format!("no cases*.jsonl in {dir:?}"));
    }
    for n in names {
        cases.push_str(&std::fs::read_to_string(dir.join(&n)).map_err(|e| format!("{n}: {e}"))?);
        if !cases.ends_with('\n') {
            cases.push('\n');
        }
    }
    let outp = ctx.out.join(format!("obs-{}.jsonl", ctx.shard));
    let mut f = std::io::BufWriter::new(std::fs::File::create(&outp).map_err(|e| e.to_string())?);
    let ev = EventCounter::install();
    for (i, line) in cases.lines().enumerate() {
        // spread by a hash of the line number: consecutive cases are often the same
        // program under neighbouring (equally slow or fast) configurations
        if !ctx.mine(crate::rng::fnv64(&(i as u64).to_le_bytes())) || line.trim().is_empty() {
            continue;
        }
        let case: Value = serde_json::from_str(line).map_err(|e| format!("bad case line {i}: {e}"))?;
        let file = dir.join(case["file"].as_str().unwrap_or(""));
        let bytes = match std::fs::read(&file) {
            Ok(b) => b,
            Err(e) => {
                rec.inconclusive(format!("cannot read {file:?}: {e}"));
                continue;
            }
        };
        let presets: Vec<String> = match case.get("presets") {
            Some(Value::Array(a)) => a.iter().filter_map(|x| x.as_str().map(|s| s.to_string())).collect(),
            _ => vec!["default".into()],
        };
        for p in presets {
            rec.evaluations += 1;
            let t0 = crate::mon::thread_cpu_ns();
            let r = crate::mon::guarded(|| observe(&bytes, &case, &p, &ev));
            let cpu_ms = (crate::mon::thread_cpu_ns() - t0) / 1_000_000;
            rec.extra.insert("max_case_cpu_ms".into(), json!(rec.extra.get("max_case_cpu_ms").and_then(|x| x.as_u64()).unwrap_or(0).max(cpu_ms)));
            let v = match r {
                Ok(mut v) => {
                    v["cpu_ms"] = json!(cpu_ms);
                    v
                }
                Err(pn) => json!({"id": case["id"], "preset": p, "panic": pn.site(), "panic_msg": pn.message}),
            };
            writeln!(f, "{}", v).map_err(|e| e.to_string())?;
        }
    }
    oxidize_pdf::verif_hooks::set_sink(None);
    Ok(())
}
