"""C23 checker: recompute every logged (function, inputs, output) tuple with pyref.crypto."""
import glob, hashlib, json, os, struct, sys
from .. import crypto
from ..recpy import Recorder
from .common import args


def spec_pw_r234(pw):
    """Algorithm 2: password in PDFDocEncoding; None if not representable"""
    from ..enc_tables import PDFDOC
    inv = {cp: b for b, cp in PDFDOC.items()}
    try:
        return bytes(inv[ord(c)] for c in pw)
    except KeyError:
        return None


def xorshift_bytes(seed, c, n):
    return None  # big RC4 inputs are checked through hashes of a regenerated keystream instead


def main():
    out, seed, tier, kv = args()
    rec = Recorder("py")
    e = crypto.selftest()
    if e:
        rec.inconc("crypto selftest: %r" % e); rec.write(out); return
    for fn in sorted(glob.glob(os.path.join(out, "c23-*.jsonl"))):
        for line in open(fn):
            d = json.loads(line)
            f = d["fn"]
            H = bytes.fromhex
            if f == "rc4":
                rec.case("rc4|%s|%d" % (d["key"], d["len"]), nontrivial=d["len"] > 0)
                if not d["roundtrip"]:
                    rec.violation("C23|rc4|decrypt_of_encrypt_differs", "key %s len %d" % (d["key"], d["len"]), d)
                if not d["big"]:
                    want = crypto.rc4(H(d["key"]), H(d["data"]))
                    if want.hex() != d["out"]:
                        rec.violation("C23|rc4|keystream_differs_from_reference", "key %s: got %s.. want %s.." % (d["key"], d["out"][:32], want.hex()[:32]), d)
                else:
                    rec.count("rc4_1MiB_roundtrips")
            elif f in ("aes_cbc", "aes_cbc_raw", "aes_ecb"):
                key, data = H(d["key"]), H(d["data"])
                rec.case("%s|%d|%d" % (f, len(key), len(data)), nontrivial=True)
                rec.set_add("aes_classes", "%s|key%d|len%d" % (f, len(key) * 8, len(data)))
                if d["out"].startswith("ERR"):
                    if f == "aes_cbc" or len(data) > 0:
                        rec.violation("C23|%s|encrypt_returns_error|len%s" % (f, "0" if len(data) == 0 else "n"), d["out"], d)
                    continue
                if f == "aes_cbc":
                    want = crypto.aes_cbc_encrypt_raw(key, H(d["iv"]), crypto.pkcs7_pad(data))
                elif f == "aes_cbc_raw":
                    want = crypto.aes_cbc_encrypt_raw(key, H(d["iv"]), data)
                else:
                    want = crypto.aes_ecb_encrypt(key, data)
                got = H(d["out"])
                if got != want:
                    # some APIs prepend the IV: accept IV || ciphertext as the PDF convention
                    if f == "aes_cbc" and got == H(d["iv"]) + want:
                        rec.count("aes_cbc_output_has_iv_prefix")
                    else:
                        rec.violation("C23|%s|ciphertext_differs_from_reference|key%d" % (f, len(key) * 8), "data len %d: got %s.. want %s.." % (len(data), d["out"][:40], want.hex()[:40]), d)
                if d.get("roundtrip") is False:
                    rec.violation("C23|%s|decrypt_of_encrypt_differs" % f, "data len %d" % len(data), d)
            elif f == "r234":
                rec.case("r234|%d|%s|%s|%s|%d" % (d["rev"], d.get("user_pw"), d.get("owner_pw"), d.get("file_id"), d.get("P", 0)), nontrivial=d.get("ucls") not in ("ascii", "empty"))
                if "error" in d:
                    rec.violation("C23|R%d|error" % d["rev"], d["error"], d); continue
                rev = d["rev"]
                klen = 5 if rev == 2 else 16
                up, op = spec_pw_r234(d["user_pw"]), spec_pw_r234(d["owner_pw"])
                rec.set_add("pw_classes", "R%d|%s|%s" % (rev, d["ucls"], d["ocls"]))
                if up is None or op is None:
                    rec.count("r234_password_not_in_pdfdoc_skipped")
                    continue
                op_eff = op if d["owner_pw"] != "" else up   # Algorithm 3 step a: no owner password -> user password
                O = crypto.alg3_owner(crypto.pad32(op_eff), crypto.pad32(up), rev, klen)
                nonascii = any(ord(ch) > 127 for ch in d["user_pw"] + d["owner_pw"])
                if O.hex() != d["O"]:
                    u8, o8 = d["user_pw"].encode("utf-8"), d["owner_pw"].encode("utf-8")
                    if d["owner_pw"] == "" and crypto.alg3_owner(crypto.pad32(o8), crypto.pad32(u8), rev, klen).hex() == d["O"]:
                        what = "empty_owner_password_padded_instead_of_replaced_by_user_password"
                    elif nonascii and crypto.alg3_owner(crypto.pad32(o8 if d["owner_pw"] else u8), crypto.pad32(u8), rev, klen).hex() == d["O"]:
                        what = "non_ascii_password_taken_as_utf8_not_pdfdocencoding"
                    else:
                        what = "differs"
                    rec.violation("C23|R%d|alg3_owner_hash|%s" % (rev, what), "user %r owner %r: O %s.. want %s.." % (d["user_pw"][:40], d["owner_pw"][:40], d["O"][:24], O.hex()[:24]), d)
                    continue
                cls = "non_ascii" if nonascii else "ascii"
                P = d["P"]
                key = crypto.alg2_key(crypto.pad32(up), H(d["O"]), P, H(d["file_id"]), rev, klen, True)
                if key.hex() != d["key"]:
                    rec.violation("C23|R%d|alg2_key_differs|%s" % (rev, cls), "user %r: key %s want %s" % (d["user_pw"], d["key"], key.hex()), d)
                    continue
                U = crypto.alg4_5_user(key, rev, H(d["file_id"]))
                ncmp = 32 if rev == 2 else 16
                if U[:ncmp].hex() != d["U"][:2 * ncmp]:
                    rec.violation("C23|R%d|alg4_5_user_hash_differs|%s" % (rev, cls), "U %s.. want %s.." % (d["U"][:32], U.hex()[:32]), d)
                if len(H(d["U"])) != 32:
                    rec.violation("C23|R%d|U_not_32_bytes" % rev, "len %d" % len(H(d["U"])), d)
                ok = crypto.alg1_object_key(key, d["obj"][0], d["obj"][1], False)
                if ok.hex() != d["objkey"]:
                    rec.violation("C23|R%d|alg1_object_key_differs" % rev, "obj %r: %s want %s" % (d["obj"], d["objkey"], ok.hex()), d)
                if d["validate_user"] != "Ok(true)":
                    rec.violation("C23|R%d|validate_user_rejects_correct_password|%s" % (rev, cls), d["validate_user"], d)
                if d["validate_owner"] != "Ok(true)":
                    c2 = "user_password_empty" if d["user_pw"] == "" else cls
                    rec.violation("C23|R%d|validate_owner_rejects_correct_password|%s" % (rev, c2), "user %r owner %r -> %s" % (d["user_pw"], d["owner_pw"], d["validate_owner"]), d)
                if d["validate_wrong"] == "Ok(true)":
                    rec.violation("C23|R%d|validate_user_accepts_wrong_password" % rev, d["user_pw"] + "-wrong", d)
            elif f == "r56":
                rev = d["rev"]
                rec.case("r56|%d|%s|%s|%s" % (rev, d["user_pw"], d["owner_pw"], d["key"]), nontrivial=d.get("ucls") not in ("ascii", "empty"))
                rec.set_add("pw_classes", "R%d|%s|%s" % (rev, d["ucls"], d["ocls"]))
                if "ascii_127plus" in (d["ucls"], d["ocls"]):
                    rec.count("r56_password_over_127_bytes_out_of_scope")   # the property quantifies over 0..127 bytes
                    continue
                if "error" in d:
                    rec.violation("C23|R%d|error|pw=%s/%s" % (rev, d["ucls"], d["ocls"]), d["error"], d); continue
                up, op = crypto.utf8_password(d["user_pw"]), crypto.utf8_password(d["owner_pw"])
                U, UE, O, OE, key = H(d["U"]), H(d["UE"]), H(d["O"]), H(d["OE"]), H(d["key"])
                ucl = d["ucls"] if d["ucls"] in ("saslprep_changes", "ascii_127plus") else "other"
                ocl = d["ocls"] if d["ocls"] in ("saslprep_changes", "ascii_127plus") else "other"
                if len(U) != 48 or len(O) != 48 or len(UE) != 32 or len(OE) != 32:
                    rec.violation("C23|R%d|entry_length" % rev, "U %d O %d UE %d OE %d" % (len(U), len(O), len(UE), len(OE)), d); continue
                raw_u, raw_o = d["user_pw"].encode("utf-8")[:127], d["owner_pw"].encode("utf-8")[:127]
                if crypto.alg2b_hash(up, U[32:40], b"", rev) != U[:32]:
                    what = "saslprep_not_applied" if (up != raw_u and crypto.alg2b_hash(raw_u, U[32:40], b"", rev) == U[:32]) else "differs"
                    rec.violation("C23|R%d|alg8_U_hash|%s" % (rev, what), "user %r" % d["user_pw"], d)
                elif crypto.aes_cbc_encrypt_raw(crypto.alg2b_hash(up, U[40:48], b"", rev), bytes(16), key) != UE:
                    rec.violation("C23|R%d|alg8_UE_differs" % rev, "user %r" % d["user_pw"], d)
                if crypto.alg2b_hash(op, O[32:40], U, rev) != O[:32]:
                    what = "saslprep_not_applied" if (op != raw_o and crypto.alg2b_hash(raw_o, O[32:40], U, rev) == O[:32]) else "differs"
                    rec.violation("C23|R%d|alg9_O_hash|%s" % (rev, what), "owner %r" % d["owner_pw"], d)
                elif crypto.aes_cbc_encrypt_raw(crypto.alg2b_hash(op, O[40:48], U, rev), bytes(16), key) != OE:
                    rec.violation("C23|R%d|alg9_OE_differs" % rev, "owner %r" % d["owner_pw"], d)
                if d["recovered_user"] != d["key"] or d["recovered_owner"] != d["key"]:
                    rec.violation("C23|R%d|recovered_file_key_differs" % rev, "user %s owner %s key %s" % (d["recovered_user"][:16], d["recovered_owner"][:16], d["key"][:16]), d)
                if not d["validate_user"] or not d["validate_owner"]:
                    rec.violation("C23|R%d|validate_rejects_correct_password" % rev, "%r %r" % (d["validate_user"], d["validate_owner"]), d)
                if d["validate_wrong"]:
                    rec.violation("C23|R%d|validate_accepts_wrong_password" % rev, d["user_pw"], d)
                if "perms" in d:
                    p = d["perms"]
                    ok, P, em = crypto.alg13_check_perms(H(p["entry"]), key)
                    if not ok or (P & 0xFFFFFFFF) != p["P"] or em != (b"T" if p["em"] else b"F") or crypto.aes_ecb_decrypt(key, H(p["entry"]))[4:8] != b"\xff\xff\xff\xff":
                        rec.violation("C23|R6|alg10_perms_entry_differs", "P %08x em %s -> decrypts to %s" % (p["P"], p["em"], crypto.aes_ecb_decrypt(key, H(p["entry"])).hex()), d)
                    if p["validates"] != "Ok(true)":
                        rec.violation("C23|R6|validate_r6_perms_rejects_own_entry", p["validates"], d)
                    if p["validates_other_P"] == "Ok(true)":
                        rec.violation("C23|R6|validate_r6_perms_accepts_other_permissions", p["validates_other_P"], d)
            elif f == "alg2b":
                rec.case("alg2b|%s|%s|%s" % (d["pw"], d["salt"], d["udata"]), nontrivial=True)
                want = crypto.alg2b_hash(H(d["pw"]), H(d["salt"]), H(d["udata"]), 6)
                if d["out"] != want.hex():
                    rec.violation("C23|alg2b|hash_differs", "pw len %d udata len %d: %s.. want %s.." % (len(H(d["pw"])), len(H(d["udata"])), d["out"][:24], want.hex()[:24]), d)
            elif f == "perms":
                rec.case("perms|%r" % d["flags"], nontrivial=True)
                bitpos = [3, 4, 5, 6, 9, 10, 11, 12]
                want = 0xFFFFF0C0
                for fl, b in zip(d["flags"], bitpos):
                    if fl:
                        want |= 1 << (b - 1)
                if d["bits"] != want:
                    rec.violation("C23|permissions|bits_differ_from_table_22", "flags %r -> %08x, Table 22 says %08x" % (d["flags"], d["bits"], want), d)
                if d["readback"] != d["flags"]:
                    rec.violation("C23|permissions|from_bits_readback_differs", "%r -> %r" % (d["flags"], d["readback"]), d)
            if len(rec.samples) < 4 and f in ("r234", "r56", "aes_cbc"):
                rec.sample({k: (v if not isinstance(v, str) or len(v) < 80 else v[:80] + "...") for k, v in d.items()})
    rec.write(out)


if __name__ == "__main__":
    main()
