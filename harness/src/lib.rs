//! vh — runtime-monitoring harness for oxidize-pdf (see /verif/DESIGN.md).
pub mod dump;
pub mod gen;
pub mod mon;
pub mod rec;
pub mod rng;
pub mod util;
pub mod wl;

pub use rec::{Ctx, Recorder, Tier};
pub use rng::Rng;
