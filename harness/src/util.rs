//! Small helpers shared by workloads.
use serde_json::Value;

pub fn jstr(v: &Value, k: &str) -> String {
    v.get(k).and_then(|x| x.as_str()).unwrap_or("").to_string()
}
pub fn ju64(v: &Value, k: &str) -> u64 {
    v.get(k).and_then(|x| x.as_u64()).unwrap_or(0)
}
