//! In-process monitors: panic capture, counting allocator with ceiling,
//! thread CPU time.
use std::alloc::{GlobalAlloc, Layout, System};
use std::cell::RefCell;
use std::panic::{self, AssertUnwindSafe};
use std::sync::atomic::{AtomicBool, AtomicUsize, Ordering};
use std::sync::Once;

// ---------------------------------------------------------------- panics

#[derive(Clone, Debug)]
pub struct PanicRecord {
    pub message: String,
    pub file: String,
    pub line: u32,
}

impl PanicRecord {
    /// `file:line` with the path made relative to the repository.
    pub fn site(&self) -> String {
        let f = self
            .file
            .rsplit_once("oxidize-pdf-core/")
            .map(|x| x.1)
            .unwrap_or(&self.file);
        format!("{}:{}", f, self.line)
    }
    /// Short message class (digits stripped) for signatures.
    pub fn class(&self) -> String {
        let m: String = self
            .message
            .chars()
            .map(|c| if c.is_ascii_digit() { '#' } else { c })
            .collect();
        let mut out = String::new();
        let mut last_hash = false;
        for c in m.chars() {
            if c == '#' {
                if !last_hash {
                    out.push('#');
                }
                last_hash = true;
            } else {
                out.push(c);
                last_hash = false;
            }
        }
        out.chars().take(80).collect()
    }
}

thread_local! {
    static LAST_PANIC: RefCell<Option<PanicRecord>> = const { RefCell::new(None) };
    static QUIET: RefCell<bool> = const { RefCell::new(false) };
}

static HOOK: Once = Once::new();

pub fn install_panic_hook() {
    HOOK.call_once(|| {
        let prev = panic::take_hook();
        panic::set_hook(Box::new(move |info| {
            let msg = if let Some(s) = info.payload().downcast_ref::<&str>() {
                s.to_string()
            } else if let Some(s) = info.payload().downcast_ref::<String>() {
                s.clone()
            } else {
                "<non-string panic payload>".to_string()
            };
            let (file, line) = info
                .location()
                .map(|l| (l.file().to_string(), l.line()))
                .unwrap_or(("?".into(), 0));
            let quiet = QUIET.with(|q| *q.borrow()) || QUIET_ALL.load(Ordering::SeqCst);
            LAST_PANIC.with(|p| {
                *p.borrow_mut() = Some(PanicRecord {
                    message: msg,
                    file,
                    line,
                })
            });
            if !quiet {
                prev(info);
            }
        }));
    });
}

/// Run `f`, catching a panic and returning where it happened.
pub fn guarded<T>(f: impl FnOnce() -> T) -> Result<T, PanicRecord> {
    install_panic_hook();
    QUIET.with(|q| *q.borrow_mut() = true);
    LAST_PANIC.with(|p| *p.borrow_mut() = None);
    let r = panic::catch_unwind(AssertUnwindSafe(f));
    QUIET.with(|q| *q.borrow_mut() = false);
    match r {
        Ok(v) => Ok(v),
        Err(_) => Err(LAST_PANIC.with(|p| p.borrow_mut().take()).unwrap_or(PanicRecord {
            message: "<panic with no record>".into(),
            file: "?".into(),
            line: 0,
        })),
    }
}

/// Make panics on *all* threads quiet (batch workloads run jobs on pool threads).
pub fn set_quiet_all(on: bool) {
    install_panic_hook();
    QUIET_ALL.store(on, Ordering::SeqCst);
}
static QUIET_ALL: AtomicBool = AtomicBool::new(false);

// ------------------------------------------------------------- allocator

pub struct CountingAlloc;

static LIVE: AtomicUsize = AtomicUsize::new(0);
static PEAK: AtomicUsize = AtomicUsize::new(0);
static CEILING: AtomicUsize = AtomicUsize::new(usize::MAX);
static CEILING_HIT: AtomicBool = AtomicBool::new(false);

unsafe impl GlobalAlloc for CountingAlloc {
    unsafe fn alloc(&self, l: Layout) -> *mut u8 {
        let sz = l.size();
        let live = LIVE.fetch_add(sz, Ordering::Relaxed) + sz;
        if live > CEILING.load(Ordering::Relaxed) {
            LIVE.fetch_sub(sz, Ordering::Relaxed);
            CEILING_HIT.store(true, Ordering::SeqCst);
            ceiling_note(sz, live);
            return std::ptr::null_mut();
        }
        PEAK.fetch_max(live, Ordering::Relaxed);
        let p = System.alloc(l);
        if p.is_null() {
            LIVE.fetch_sub(sz, Ordering::Relaxed);
        }
        p
    }
    unsafe fn dealloc(&self, p: *mut u8, l: Layout) {
        LIVE.fetch_sub(l.size(), Ordering::Relaxed);
        System.dealloc(p, l)
    }
    unsafe fn alloc_zeroed(&self, l: Layout) -> *mut u8 {
        let sz = l.size();
        let live = LIVE.fetch_add(sz, Ordering::Relaxed) + sz;
        if live > CEILING.load(Ordering::Relaxed) {
            LIVE.fetch_sub(sz, Ordering::Relaxed);
            CEILING_HIT.store(true, Ordering::SeqCst);
            ceiling_note(sz, live);
            return std::ptr::null_mut();
        }
        PEAK.fetch_max(live, Ordering::Relaxed);
        let p = System.alloc_zeroed(l);
        if p.is_null() {
            LIVE.fetch_sub(sz, Ordering::Relaxed);
        }
        p
    }
    unsafe fn realloc(&self, p: *mut u8, l: Layout, new: usize) -> *mut u8 {
        let old = l.size();
        if new > old {
            let d = new - old;
            let live = LIVE.fetch_add(d, Ordering::Relaxed) + d;
            if live > CEILING.load(Ordering::Relaxed) {
                LIVE.fetch_sub(d, Ordering::Relaxed);
                CEILING_HIT.store(true, Ordering::SeqCst);
                ceiling_note(new, live);
                return std::ptr::null_mut();
            }
            PEAK.fetch_max(live, Ordering::Relaxed);
            let q = System.realloc(p, l, new);
            if q.is_null() {
                LIVE.fetch_sub(d, Ordering::Relaxed);
            }
            q
        } else {
            let q = System.realloc(p, l, new);
            if !q.is_null() {
                LIVE.fetch_sub(old - new, Ordering::Relaxed);
            }
            q
        }
    }
}

fn ceiling_note(req: usize, live: usize) {
    // async-signal-safe style: raw write to fd 2, no allocation
    let mut buf = [0u8; 96];
    let mut n = 0;
    for b in b"ALLOC_CEILING req=" {
        buf[n] = *b;
        n += 1;
    }
    n += fmt_usize(req, &mut buf[n..]);
    for b in b" live=" {
        buf[n] = *b;
        n += 1;
    }
    n += fmt_usize(live, &mut buf[n..]);
    buf[n] = b'\n';
    n += 1;
    unsafe {
        libc::write(2, buf.as_ptr() as *const libc::c_void, n);
    }
}
fn fmt_usize(mut v: usize, out: &mut [u8]) -> usize {
    let mut tmp = [0u8; 24];
    let mut i = 0;
    if v == 0 {
        tmp[0] = b'0';
        i = 1;
    }
    while v > 0 {
        tmp[i] = b'0' + (v % 10) as u8;
        v /= 10;
        i += 1;
    }
    for k in 0..i {
        out[k] = tmp[i - 1 - k];
    }
    i
}

pub fn alloc_live() -> usize {
    LIVE.load(Ordering::Relaxed)
}
pub fn alloc_peak() -> usize {
    PEAK.load(Ordering::Relaxed)
}
/// Reset the peak to the current live value; returns live.
pub fn alloc_reset_peak() -> usize {
    let l = LIVE.load(Ordering::Relaxed);
    PEAK.store(l, Ordering::Relaxed);
    l
}
/// Absolute ceiling on live bytes (usize::MAX = off).
pub fn alloc_set_ceiling(c: usize) {
    CEILING.store(c, Ordering::Relaxed);
    CEILING_HIT.store(false, Ordering::SeqCst);
}
pub fn alloc_ceiling_hit() -> bool {
    CEILING_HIT.load(Ordering::SeqCst)
}

// ------------------------------------------------------------------ time

pub fn thread_cpu_ns() -> u64 {
    let mut ts = libc::timespec {
        tv_sec: 0,
        tv_nsec: 0,
    };
    unsafe {
        libc::clock_gettime(libc::CLOCK_THREAD_CPUTIME_ID, &mut ts);
    }
    ts.tv_sec as u64 * 1_000_000_000 + ts.tv_nsec as u64
}

pub fn process_cpu_ns() -> u64 {
    let mut ts = libc::timespec {
        tv_sec: 0,
        tv_nsec: 0,
    };
    unsafe {
        libc::clock_gettime(libc::CLOCK_PROCESS_CPUTIME_ID, &mut ts);
    }
    ts.tv_sec as u64 * 1_000_000_000 + ts.tv_nsec as u64
}
