//! Canonical JSON form of parser objects, shared with pyref/pdf.py `canon()`.
use oxidize_pdf::parser::objects::{PdfDictionary, PdfObject};
use serde_json::{json, Map, Value};
use sha1::{Digest, Sha1};

pub fn sha1_hex(b: &[u8]) -> String {
    let mut h = Sha1::new();
    h.update(b);
    crate::rec::hex(&h.finalize())
}

pub fn canon_dict(d: &PdfDictionary, depth: usize) -> Map<String, Value> {
    let mut m = Map::new();
    for (k, v) in d.0.iter() {
        m.insert(crate::rec::hex(k.0.as_bytes()), canon_depth(v, depth + 1));
    }
    m
}

fn canon_depth(o: &PdfObject, depth: usize) -> Value {
    if depth > 200 {
        return json!({"err": "nesting too deep"});
    }
    match o {
        PdfObject::Null => Value::Null,
        PdfObject::Boolean(b) => json!(b),
        PdfObject::Integer(i) => json!({"i": i}),
        PdfObject::Real(r) => {
            if r.is_finite() {
                json!({"r": r})
            } else {
                json!({"r": format!("{r}")})
            }
        }
        PdfObject::String(s) => json!({"s": crate::rec::hex(&s.0)}),
        PdfObject::Name(n) => json!({"n": crate::rec::hex(n.0.as_bytes())}),
        PdfObject::Array(a) => Value::Array(a.0.iter().map(|x| canon_depth(x, depth + 1)).collect()),
        PdfObject::Dictionary(d) => json!({"d": canon_dict(d, depth)}),
        PdfObject::Stream(s) => json!({"st": canon_dict(&s.dict, depth), "len": s.data.len(), "sha": sha1_hex(&s.data)}),
        PdfObject::Reference(n, g) => json!({"ref": [n, g]}),
    }
}

pub fn canon(o: &PdfObject) -> Value {
    canon_depth(o, 0)
}
